//! Configuration text generation: the action menu (every list/atom action of the grammar with
//! small, scaled time constants) and the helper blocks the actions need.

/// Physical keys used by the generic universes.
pub const K1: &str = "a";
pub const K2: &str = "b";
pub const K3: &str = "c";

/// One menu entry: action text (may reference helper blocks) and a short tag.
#[derive(Clone, Debug)]
pub struct MenuItem {
    pub tag: &'static str,
    pub text: String,
    /// latches output deliberately (vkey press/toggle without release, layer-switch, ...): excluded from C01
    pub latching: bool,
}

fn mi(tag: &'static str, text: &str) -> MenuItem {
    MenuItem { tag, text: text.to_string(), latching: false }
}
fn ml(tag: &'static str, text: &str) -> MenuItem {
    MenuItem { tag, text: text.to_string(), latching: true }
}

/// The action menu 𝓐. `h` is the scaled time constant (hold/one-shot/tap-dance timeout).
pub fn action_menu(h: u32) -> Vec<MenuItem> {
    let h2 = h + 3;
    let mut v = vec![
        mi("key", "x"),
        mi("mod", "lsft"),
        mi("chord-out", "S-x"),
        mi("chord-out2", "C-S-y"),
        mi("nop", "XX"),
        mi("trans", "_"),
        mi("use-defsrc", "use-defsrc"),
        mi("multi", "(multi lctl y)"),
        mi("multi-rev", "(multi lctl lalt y reverse-release-order)"),
        mi("lwh", "(layer-while-held nav)"),
        ml("lsw", "(layer-switch nav)"),
        mi("rel-key", "(multi lsft (release-key lsft))"),
        mi("rel-layer", "(multi (layer-while-held nav) (release-layer nav))"),
        mi("th", &format!("(tap-hold {h} {h} x lsft)")),
        mi("th0", &format!("(tap-hold 0 {h} x lsft)")),
        mi("th-press", &format!("(tap-hold-press {h} {h} x lsft)")),
        mi("th-release", &format!("(tap-hold-release {h} {h} x lsft)")),
        mi("th-press-to", &format!("(tap-hold-press-timeout {h} {h} x lsft lctl)")),
        mi("th-release-to", &format!("(tap-hold-release-timeout {h} {h} x lsft lctl)")),
        mi("th-release-keys", &format!("(tap-hold-release-keys {h} {h} x lsft (b))")),
        mi("th-except-keys", &format!("(tap-hold-except-keys {h} {h} x lsft (b))")),
        mi("th-layer", &format!("(tap-hold {h} {h} x (layer-while-held nav))")),
        mi("th-macro", &format!("(tap-hold {h} {h} (macro x y) lsft)")),
        mi("td", &format!("(tap-dance {h} (x y z))")),
        mi("td-eager", &format!("(tap-dance-eager {h} (x y z))")),
        mi("td-th", &format!("(tap-dance {h} (x (tap-hold {h} {h} y lctl)))")),
        mi("os", &format!("(one-shot {h2} lsft)")),
        mi("os-press", &format!("(one-shot-press {h2} lsft)")),
        mi("os-release", &format!("(one-shot-release {h2} lsft)")),
        mi("os-press-pc", &format!("(one-shot-press-pcancel {h2} lsft)")),
        mi("os-release-pc", &format!("(one-shot-release-pcancel {h2} lsft)")),
        mi("os-layer", &format!("(one-shot {h2} (layer-while-held nav))")),
        mi("os-chord", &format!("(one-shot {h2} C-lalt)")),
        mi("os-pause", "(multi x (one-shot-pause-processing 3))"),
        mi("chord1-a", "(chord grp ka)"),
        mi("macro", "(macro x 2 y S-z)"),
        mi("macro-nest", "(macro C-(x y) 1 (z))"),
        mi("macro-rep", "(macro-repeat x 2 y)"),
        mi("macro-relc", "(macro-release-cancel x 3 y 3 z)"),
        mi("macro-rep-relc", "(macro-repeat-release-cancel x 3 y)"),
        mi("macro-cop", "(macro-cancel-on-press x 3 y 3 z)"),
        mi("macro-rep-cop", "(macro-repeat-cancel-on-press x 3 y)"),
        mi("macro-vk", "(macro x (on-press tap-vkey v1) 2 y)"),
        mi("macro-2custom", "(macro mlft mlft)"),
        mi("macro-custom-tail", "(macro x (unicode ü) (unicode ü))"),
        mi("macro-relc-custom", "(macro-release-cancel y mlft 5 z)"),
        mi("unicode", "(unicode ü)"),
        mi("fork", "(fork x y (lsft rsft))"),
        mi("fork-th", &format!("(fork (tap-hold {h} {h} x lctl) y (lsft))")),
        mi("switch", "(switch ((or b lsft)) y break ((key-history c 1)) z fallthrough () x break)"),
        mi("switch-timing", "(switch ((key-timing 1 lt 4)) y break () x break)"),
        mi("switch-timing-gt", "(switch ((key-timing 1 gt 30)) y break () x break)"),
        mi("switch-timing-both", "(switch ((key-timing 1 lt 4)) y break ((key-timing 1 gt 30)) z break () x break)"),
        mi("switch-input", "(switch ((input real b)) y break ((input-history real c 2)) z break () x break)"),
        mi("switch-layer", "(switch ((layer nav)) y break ((base-layer base)) z break)"),
        mi("unmod", "(unmod x)"),
        mi("unmod-l", "(unmod (lsft) x)"),
        mi("unshift", "(unshift x)"),
        mi("caps-word", &format!("(caps-word {h2})")),
        mi("caps-word-c", &format!("(caps-word-custom {h2} (x y) (z))")),
        mi("caps-word-t", &format!("(caps-word-toggle {h2})")),
        mi("mwheel", "(mwheel-up 3 120)"),
        mi("mwheel-h", "(mwheel-left 2 120)"),
        mi("movemouse", "(movemouse-up 2 1)"),
        mi("movemouse-l", "(movemouse-left 3 2)"),
        mi("movemouse-accel", "(movemouse-accel-down 2 6 1 5)"),
        mi("movemouse-speed", "(movemouse-speed 200)"),
        mi("setmouse", "(setmouse 10 10)"),
        mi("mbtn", "mlft"),
        mi("mtap", "mltp"),
        mi("rpt", "rpt"),
        mi("rpt-any", "rpt-any"),
        mi("sldr", "sldr"),
        mi("sequence", "(sequence 6)"),
        mi("sequence-mode", "(sequence 6 hidden-delay-type)"),
        mi("seq-noerase", "(multi x (sequence-noerase 1))"),
        mi("dm-rec", "(dynamic-macro-record 1)"),
        mi("dm-stop", "dynamic-macro-record-stop"),
        mi("dm-stop-t", "(dynamic-macro-record-stop-truncate 1)"),
        mi("dm-play", "(dynamic-macro-play 1)"),
        mi("vk-tap", "(on-press tap-vkey v1)"),
        ml("vk-press", "(on-press press-vkey v1)"),
        mi("vk-release", "(on-press release-vkey v1)"),
        ml("vk-toggle", "(on-press toggle-vkey v1)"),
        mi("vk-press-release", "(multi (on-press press-vkey v2) (on-release release-vkey v2))"),
        mi("vk-on-release-tap", "(on-release tap-vkey v3)"),
        mi("vk-old-press", "(multi (on-press-fakekey v1 press) (on-release-fakekey v1 release))"),
        mi("vk-delay", "(multi (on-press-fakekey v1 tap) (on-press-fakekey-delay 1) (on-release-fakekey-delay 1))"),
        mi("vk-idle", "(on-idle 4 tap-vkey v1)"),
        mi("vk-idle-old", "(on-idle-fakekey v1 tap 4)"),
        mi("vk-hold-dur", "(hold-for-duration 4 v1)"),
        mi("arbitrary-code", "(arbitrary-code 700)"),
        mi("push-msg", "(push-msg \"hi\")"),
        mi("lrld", "lrld"),
        mi("lrld-num", "(lrld-num 1)"),
    ];
    // legacy aliases
    v.push(mi("layer-toggle", "(layer-toggle nav)"));
    v
}

#[derive(Clone, Debug, Default)]
pub struct CfgOpts {
    /// extra `defcfg` items, e.g. "concurrent-tap-hold yes"
    pub defcfg: String,
    pub chords_v2: bool,
    pub overrides: bool,
    /// extra top-level text
    pub extra: String,
}

/// Full config around three layer cells for keys a b c (+ helper blocks).
pub fn cfg3(a1: &str, a2: &str, a3: &str, o: &CfgOpts) -> String {
    let mut s = String::new();
    // sequence-timeout defaults to 1000 ms; scaled down like every other time constant
    let seqt = if o.defcfg.contains("sequence-timeout") { "" } else { " sequence-timeout 6" };
    s += &format!("(defcfg {}{})\n", o.defcfg, seqt);
    s += "(defsrc a b c)\n";
    s += "(defvirtualkeys v1 x v2 (layer-while-held nav) v3 (macro y z))\n";
    if a1.contains("(chord grp ") || a2.contains("(chord grp ") || a3.contains("(chord grp ") || o.extra.contains("(chord grp ") {
        s += "(defchords grp 5 (ka) x)\n";
    }
    s += "(defseq v1 (x y) v3 (y z))\n";
    s += &format!("(deflayer base {a1} {a2} {a3})\n");
    s += "(deflayer nav 1 2 3)\n";
    if o.chords_v2 {
        s += "(defchordsv2 (a b) z 5 all-released () (b c) y 5 first-release (nav))\n";
    }
    if o.overrides {
        s += "(defoverrides (lsft x) (y) (lctl y) (lsft z))\n";
    }
    s += &o.extra;
    s
}
