//! Exhaustive enumeration of event histories (the "state = history" explorer).
use crate::sim::Ev;

/// Which events are enabled, given the set of physically held keys.
#[derive(Clone, Copy, PartialEq, Eq)]
pub enum Consistency {
    /// every event always enabled (C02)
    Any,
    /// P(k) only when k is up; R(k)/Rep(k) only when k is down
    Physical,
}

fn enabled(c: Consistency, down: &[u16], e: Ev) -> bool {
    match c {
        Consistency::Any => true,
        Consistency::Physical => match e {
            Ev::P(k) => !down.contains(&k),
            Ev::R(k) | Ev::Rep(k) => down.contains(&k),
            Ev::Tap(k) => !down.contains(&k),
            _ => true,
        },
    }
}

pub fn apply_phys(down: &mut Vec<u16>, e: Ev) {
    match e {
        Ev::P(k) => {
            if !down.contains(&k) {
                down.push(k)
            }
        }
        Ev::R(k) => down.retain(|x| *x != k),
        _ => {}
    }
}

/// Calls `f(history, first_new_index, keys_down_after)` for every history of exactly `depth`
/// events over `alphabet` (all of them — DFS in alphabet order), where `first_new_index` is the
/// length of the prefix shared with the previously visited history (so that tree nodes can be
/// counted once). Histories that cannot be extended to `depth` because nothing is enabled are
/// visited at their maximal length. `prefix` is a fixed initial segment (sharding).
pub fn for_each_history(
    alphabet: &[Ev],
    depth: usize,
    c: Consistency,
    prefix: &[Ev],
    mut f: impl FnMut(&[Ev], usize, &[u16]),
) {
    let mut hist: Vec<Ev> = prefix.to_vec();
    let mut down: Vec<u16> = vec![];
    for e in prefix {
        if !enabled(c, &down, *e) {
            return;
        }
        apply_phys(&mut down, *e);
    }
    let mut first_new = 0usize;
    rec(alphabet, depth, c, &mut hist, &mut down, &mut first_new, &mut f);
}

fn rec(
    alphabet: &[Ev],
    depth: usize,
    c: Consistency,
    hist: &mut Vec<Ev>,
    down: &mut Vec<u16>,
    first_new: &mut usize,
    f: &mut impl FnMut(&[Ev], usize, &[u16]),
) {
    if hist.len() >= depth {
        f(hist, *first_new, down);
        *first_new = hist.len();
        return;
    }
    let mut any = false;
    for &e in alphabet {
        if !enabled(c, down, e) {
            continue;
        }
        // never two pure time steps in a row when they could be merged? keep all: the alphabet decides.
        any = true;
        let saved = down.clone();
        apply_phys(down, e);
        hist.push(e);
        rec(alphabet, depth, c, hist, down, first_new, f);
        hist.pop();
        *down = saved;
        *first_new = (*first_new).min(hist.len());
    }
    if !any {
        f(hist, *first_new, down);
        *first_new = hist.len();
    }
}

/// All sharding prefixes of length `plen` (enabledness respected).
pub fn prefixes(alphabet: &[Ev], plen: usize, c: Consistency) -> Vec<Vec<Ev>> {
    let mut out = vec![];
    for_each_history(alphabet, plen, c, &[], |h, _, _| out.push(h.to_vec()));
    out
}

/// Completion: release every key still down, in ascending (false) or descending (true) order.
pub fn completion(down: &[u16], descending: bool) -> Vec<Ev> {
    let mut d = down.to_vec();
    d.sort();
    if descending {
        d.reverse();
    }
    d.into_iter().map(Ev::R).collect()
}

/// A schedule: events each preceded by a tick gap.
pub type Sched = Vec<(u32, Ev)>;

/// Every physically consistent schedule of exactly `n` events over press/release of `keys`, each
/// preceded by a gap from `gaps`. `first` fixes the first (key, gap) choice (sharding; there are
/// keys.len()*gaps.len() first choices). `f(schedule, common_prefix_len_with_previous)`.
pub fn for_each_schedule(keys: &[u16], gaps: &[u32], n: usize, first: Option<usize>, f: &mut dyn FnMut(&[(u32, Ev)], usize)) {
    fn rec(depth: usize, n: usize, first: Option<usize>, gaps: &[u32], keys: &[u16], sched: &mut Sched, down: &mut Vec<bool>, prev: &mut Sched, f: &mut dyn FnMut(&[(u32, Ev)], usize)) {
        if depth == n {
            let common = sched.iter().zip(prev.iter()).take_while(|(a, b)| a == b).count();
            f(sched, common);
            *prev = sched.clone();
            return;
        }
        let mut choice = 0;
        for k in 0..keys.len() {
            let ev = if down[k] { Ev::R(keys[k]) } else { Ev::P(keys[k]) };
            for g in gaps {
                if depth == 0 {
                    if let Some(fst) = first {
                        if choice != fst {
                            choice += 1;
                            continue;
                        }
                    }
                }
                choice += 1;
                sched.push((*g, ev));
                down[k] = !down[k];
                rec(depth + 1, n, first, gaps, keys, sched, down, prev, f);
                down[k] = !down[k];
                sched.pop();
            }
        }
    }
    let mut sched = vec![];
    let mut down = vec![false; keys.len()];
    let mut prev = vec![];
    rec(0, n, first, gaps, keys, &mut sched, &mut down, &mut prev, f);
}

pub fn sched_to_hist(sched: &[(u32, Ev)]) -> Vec<Ev> {
    let mut h = vec![];
    for (g, e) in sched {
        if *g > 0 {
            h.push(Ev::T(*g));
        }
        h.push(*e);
    }
    h
}

pub fn hist_to_sched(h: &[Ev]) -> Sched {
    let mut out = vec![];
    let mut gap = 0;
    for e in h {
        match e {
            Ev::T(n) => gap += n,
            e => {
                out.push((gap, *e));
                gap = 0;
            }
        }
    }
    out
}
