//! Thin driver around the REAL kanata state machine (`Kanata::new_from_str`,
//! `handle_input_event`, `tick_ms`, hook H3), plus output-trace parsing and panic capture.
use kanata_state_machine::oskbd::{KeyEvent, KeyValue};
use kanata_state_machine::{handle_fakekey_action, Kanata};
use kanata_parser::custom_action::FakeKeyAction;
use kanata_parser::keys::OsCode;
use rustc_hash::FxHashMap;
use std::cell::RefCell;
use std::hash::{Hash, Hasher};
use std::panic::{catch_unwind, AssertUnwindSafe};

/// One input step.
#[derive(Debug, Clone, Copy, PartialEq, Eq, Hash, PartialOrd, Ord)]
pub enum Ev {
    /// press of OS code
    P(u16),
    /// release of OS code
    R(u16),
    /// OS auto-repeat of OS code
    Rep(u16),
    /// KeyValue::Tap (press+release in one call)
    Tap(u16),
    /// n calls of tick_ms(1)
    T(u32),
    /// one call of tick_ms(n)
    Tn(u32),
    /// idle loop as in start_processing_loop with no input: up to n times { if can_block_update_idle_waiting(1) stop; tick_ms(1) }
    L(u32),
    /// virtual key operation through the TCP path: (index into sorted vkey names, op 0..4 = press/release/tap/toggle)
    Vk(u8, u8),
}

impl Ev {
    pub fn to_string(&self) -> String {
        match *self {
            Ev::P(c) => format!("d:{}", code_name(c)),
            Ev::R(c) => format!("u:{}", code_name(c)),
            Ev::Rep(c) => format!("r:{}", code_name(c)),
            Ev::Tap(c) => format!("tap:{}", code_name(c)),
            Ev::T(n) => format!("t:{}", n),
            Ev::Tn(n) => format!("tn:{}", n),
            Ev::L(n) => format!("loop:{}", n),
            Ev::Vk(i, op) => format!("vk{}:{}", i, ["press", "release", "tap", "toggle"][op as usize & 3]),
        }
    }
    pub fn parse(s: &str) -> Option<Ev> {
        let (k, v) = s.split_once(':')?;
        Some(match k {
            "d" => Ev::P(name_code(v)?),
            "u" => Ev::R(name_code(v)?),
            "r" => Ev::Rep(name_code(v)?),
            "tap" => Ev::Tap(name_code(v)?),
            "t" => Ev::T(v.parse().ok()?),
            "tn" => Ev::Tn(v.parse().ok()?),
            "loop" => Ev::L(v.parse().ok()?),
            _ if k.starts_with("vk") => {
                let i: u8 = k[2..].parse().ok()?;
                let op = ["press", "release", "tap", "toggle"].iter().position(|x| *x == v)? as u8;
                Ev::Vk(i, op)
            }
            _ => return None,
        })
    }
}

pub fn hist_to_string(h: &[Ev]) -> String {
    h.iter().map(|e| e.to_string()).collect::<Vec<_>>().join(" ")
}
pub fn hist_parse(s: &str) -> Option<Vec<Ev>> {
    s.split_whitespace().map(Ev::parse).collect()
}

/// OS code -> a name usable in configs ("#<n>" when there is none we know).
pub fn code_name(c: u16) -> String {
    format!("#{}", c)
}
pub fn name_code(s: &str) -> Option<u16> {
    if let Some(n) = s.strip_prefix('#') {
        return n.parse().ok();
    }
    kanata_parser::keys::str_to_oscode(s).map(|o| o.as_u16())
}
/// OS code of a config key name; panics on unknown names (generator bug).
pub fn kc(name: &str) -> u16 {
    kanata_parser::keys::str_to_oscode(name)
        .unwrap_or_else(|| panic!("unknown key name {name}"))
        .as_u16()
}

/// One parsed output event.
#[derive(Debug, Clone, PartialEq, Eq, Hash)]
pub enum Out {
    /// OS auto-repeat forwarded by kanata (rendered as a press by the simulated output; identified
    /// by having been emitted synchronously during a repeat input event)
    Rep(String),
    Down(String),
    Up(String),
    MDown(String),
    MUp(String),
    Uni(String),
    Other(String),
}

/// (time = number of completed ticks when emitted, event)
pub type Trace = Vec<(u64, Out)>;

pub fn parse_outputs(events: &[String]) -> Trace {
    parse_outputs_rep(events, &[])
}

pub fn parse_outputs_rep(events: &[String], rep_idx: &[usize]) -> Trace {
    let mut t: u64 = 0;
    let mut tr = Vec::with_capacity(events.len());
    for (i, e) in events.iter().enumerate() {
        if rep_idx.contains(&i) {
            if let Some(r) = e.strip_prefix("out:↓") {
                tr.push((t, Out::Rep(r.to_string())));
                continue;
            }
        }
        if let Some(n) = e.strip_prefix("t:").and_then(|r| r.strip_suffix("ms")) {
            t += n.parse::<u64>().unwrap_or(0);
            continue;
        }
        let o = if let Some(r) = e.strip_prefix("out:↓") {
            Out::Down(r.to_string())
        } else if let Some(r) = e.strip_prefix("out:↑") {
            Out::Up(r.to_string())
        } else if let Some(r) = e.strip_prefix("out🖰:↓") {
            Out::MDown(r.to_string())
        } else if let Some(r) = e.strip_prefix("out🖰:↑") {
            Out::MUp(r.to_string())
        } else if let Some(r) = e.strip_prefix("out-code:") {
            match r.split_once(';') {
                Some((c, "Press")) | Some((c, "Repeat")) => Out::Down(format!("code:{c}")),
                Some((c, "Release")) => Out::Up(format!("code:{c}")),
                _ => Out::Other(e.clone()),
            }
        } else if let Some(r) = e.strip_prefix("outU:") {
            Out::Uni(r.to_string())
        } else {
            Out::Other(e.clone())
        };
        tr.push((t, o));
    }
    tr
}

pub fn trace_to_string(tr: &Trace) -> String {
    let mut s = String::new();
    for (t, o) in tr {
        if !s.is_empty() {
            s.push(' ');
        }
        match o {
            Out::Rep(k) => s += &format!("{}:⟳{}", t, k),
            Out::Down(k) => s += &format!("{}:↓{}", t, k),
            Out::Up(k) => s += &format!("{}:↑{}", t, k),
            Out::MDown(k) => s += &format!("{}:m↓{}", t, k),
            Out::MUp(k) => s += &format!("{}:m↑{}", t, k),
            Out::Uni(k) => s += &format!("{}:U{}", t, k),
            Out::Other(k) => s += &format!("{}:[{}]", t, k),
        }
    }
    s
}

/// Keys (and mouse buttons, prefixed "m:") held at the OS after the trace.
pub fn os_down_set(tr: &Trace) -> Vec<String> {
    let mut v: Vec<String> = vec![];
    for (_, o) in tr {
        match o {
            Out::Down(k) => {
                if !v.contains(k) {
                    v.push(k.clone())
                }
            }
            Out::Up(k) => v.retain(|x| x != k),
            Out::MDown(k) => {
                let k = format!("m:{k}");
                if !v.contains(&k) {
                    v.push(k)
                }
            }
            Out::MUp(k) => {
                let k = format!("m:{k}");
                v.retain(|x| *x != k)
            }
            _ => {}
        }
    }
    v
}

thread_local! {
    static LAST_PANIC: RefCell<Option<String>> = const { RefCell::new(None) };
}

pub fn install_panic_hook() {
    std::panic::set_hook(Box::new(|info| {
        let loc = info
            .location()
            .map(|l| format!("{}:{}", l.file(), l.line()))
            .unwrap_or_else(|| "?".into());
        let msg = if let Some(s) = info.payload().downcast_ref::<&str>() {
            s.to_string()
        } else if let Some(s) = info.payload().downcast_ref::<String>() {
            s.clone()
        } else {
            "<non-string panic>".into()
        };
        LAST_PANIC.with(|p| *p.borrow_mut() = Some(format!("{} :: {}", loc, msg)));
    }));
}

/// Runs f, converting a panic into Err("file:line :: message").
pub fn guarded<R>(f: impl FnOnce() -> R) -> Result<R, String> {
    LAST_PANIC.with(|p| *p.borrow_mut() = None);
    match catch_unwind(AssertUnwindSafe(f)) {
        Ok(r) => Ok(r),
        Err(_) => Err(LAST_PANIC
            .with(|p| p.borrow_mut().take())
            .unwrap_or_else(|| "?:? :: <unknown panic>".into())),
    }
}

/// Panic site with the path made relative to the repository ("/repo/" stripped).
pub fn panic_site(p: &str) -> String {
    let site = p.split(" :: ").next().unwrap_or("?");
    site.trim_start_matches("/repo/").to_string()
}

pub struct Sim {
    // Boxed immediately and never moved afterwards: Layout is self-referential once used.
    pub k: Box<Kanata>,
    pub vkeys: Vec<(String, usize)>,
    pub ticks: u64,
    /// indices into the raw output list of events emitted during a repeat input step
    pub rep_idx: Vec<usize>,
}

pub type Files = FxHashMap<String, String>;

/// A config text may carry the files it refers to (zippychord dictionary, include) in comment lines
/// of the form `;; KMC-FILE <name> <content with \n and \t escapes>`, so that a config + history
/// is self-contained in replay files and `kmc sim`.
pub fn embedded_files(cfg: &str) -> Files {
    let mut f = Files::default();
    for l in cfg.lines() {
        if let Some(rest) = l.trim_start().strip_prefix(";; KMC-FILE ") {
            if let Some((name, content)) = rest.split_once(' ') {
                f.insert(name.to_string(), content.replace("\\n", "\n").replace("\\t", "\t"));
            }
        }
    }
    f
}

impl Sim {
    /// Builds a fresh real instance. Err(msg) = the parser rejected the text. A panic is
    /// returned as Err("PANIC ...").
    pub fn new(cfg: &str) -> Result<Sim, String> {
        Self::new_with_files(cfg, embedded_files(cfg))
    }
    pub fn new_with_files(cfg: &str, files: Files) -> Result<Sim, String> {
        match guarded(|| Kanata::new_from_str(cfg, files)) {
            Err(p) => Err(format!("PANIC {p}")),
            Ok(Err(e)) => Err(format!("{e:?}")),
            Ok(Ok(k)) => {
                let k = Box::new(k);
                let mut vkeys: Vec<(String, usize)> =
                    k.virtual_keys.iter().map(|(n, i)| (n.clone(), *i)).collect();
                vkeys.sort();
                Ok(Sim { k, vkeys, ticks: 0, rep_idx: vec![] })
            }
        }
    }

    /// Applies one step to the real code. Err = panic text.
    pub fn step(&mut self, ev: Ev) -> Result<(), String> {
        let n_before = self.k.kbd_out.outputs.events.len();
        let r = self.step_inner(ev);
        if let Ev::Rep(_) = ev {
            let n_after = self.k.kbd_out.outputs.events.len();
            for i in n_before..n_after {
                if self.k.kbd_out.outputs.events[i].starts_with("out:↓") {
                    self.rep_idx.push(i);
                }
            }
        }
        r
    }

    fn step_inner(&mut self, ev: Ev) -> Result<(), String> {
        let k = &mut self.k;
        let vk = &self.vkeys;
        let r = guarded(|| -> Result<(), String> {
            let kev = |c: u16, v: KeyValue| -> Option<KeyEvent> {
                OsCode::from_u16(c).map(|code| KeyEvent { code, value: v })
            };
            match ev {
                Ev::P(c) => {
                    if let Some(e) = kev(c, KeyValue::Press) {
                        k.handle_input_event(&e).map_err(|e| format!("{e:?}"))?
                    }
                }
                Ev::R(c) => {
                    if let Some(e) = kev(c, KeyValue::Release) {
                        k.handle_input_event(&e).map_err(|e| format!("{e:?}"))?
                    }
                }
                Ev::Rep(c) => {
                    if let Some(e) = kev(c, KeyValue::Repeat) {
                        k.handle_input_event(&e).map_err(|e| format!("{e:?}"))?
                    }
                }
                Ev::Tap(c) => {
                    if let Some(e) = kev(c, KeyValue::Tap) {
                        k.handle_input_event(&e).map_err(|e| format!("{e:?}"))?
                    }
                }
                Ev::T(n) => {
                    for _ in 0..n {
                        k.tick_ms(1, &None).map_err(|e| format!("{e:?}"))?
                    }
                }
                Ev::Tn(n) => k.tick_ms(n as u128, &None).map_err(|e| format!("{e:?}"))?,
                Ev::L(n) => {
                    for _ in 0..n {
                        if k.can_block_update_idle_waiting(1) {
                            break;
                        }
                        k.tick_ms(1, &None).map_err(|e| format!("{e:?}"))?
                    }
                }
                Ev::Vk(i, op) => {
                    if let Some((_, idx)) = vk.get(i as usize) {
                        let action = match op & 3 {
                            0 => FakeKeyAction::Press,
                            1 => FakeKeyAction::Release,
                            2 => FakeKeyAction::Tap,
                            _ => FakeKeyAction::Toggle,
                        };
                        // Exactly what tcp_server.rs does for ClientMessage::ActOnFakeKey.
                        handle_fakekey_action(
                            action,
                            k.layout.bm(),
                            kanata_parser::cfg::FAKE_KEY_ROW,
                            *idx as u16,
                        );
                    }
                }
            }
            Ok(())
        });
        if let Ev::T(n) | Ev::Tn(n) = ev {
            self.ticks += n as u64;
        }
        match r {
            Ok(Ok(())) => Ok(()),
            Ok(Err(e)) => Err(format!("ERR {e}")),
            Err(p) => Err(format!("PANIC {p}")),
        }
    }

    pub fn run(&mut self, h: &[Ev]) -> Result<(), String> {
        for e in h {
            self.step(*e)?;
        }
        Ok(())
    }

    pub fn raw_outputs(&self) -> &[String] {
        &self.k.kbd_out.outputs.events
    }
    pub fn n_out(&self) -> usize {
        self.k.kbd_out.outputs.events.len()
    }
    pub fn trace(&self) -> Trace {
        parse_outputs_rep(self.raw_outputs(), &self.rep_idx)
    }

    /// Complete dynamic state rendering (hooks H1/H2).
    pub fn digest_string(&self) -> String {
        let mut s = String::with_capacity(1024);
        // history ages are read only by key-timing checks; without any such check (max == 0) they are
        // unobservable and rendered as 0
        let cap = self.k.switch_max_key_timing;
        self.k.verif_digest(&mut s, cap, u16::MAX);
        s
    }
    pub fn digest(&self) -> u64 {
        hash_str(&self.digest_string())
    }
}

pub fn hash_str(s: &str) -> u64 {
    let mut h = rustc_hash::FxHasher::default();
    s.hash(&mut h);
    h.finish()
}

/// Build a Sim, replay a history, return the trace (or the failure).
pub fn run_fresh(cfg: &str, h: &[Ev]) -> Result<(Sim, Trace), String> {
    let mut s = Sim::new(cfg)?;
    s.run(h)?;
    let t = s.trace();
    Ok((s, t))
}
