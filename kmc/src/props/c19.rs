//! C19 — dynamic macros replay what was typed and never leave a key down.
use super::*;
use crate::explore::*;
use crate::par::{PropDef, Stats, Tier};
use crate::sim::{kc, Ev, Out, Sim};
use serde_json::json;
use std::sync::OnceLock;

pub fn def() -> PropDef {
    PropDef {
        id: "C19",
        level: "model_checking",
        n_jobs,
        job_level,
        run_job,
        replay,
        rule: "configs: typing keys a (plain a, or a tap-hold 8: time-sensitive), b, c = lsft; record / stop / stop-truncate 1 / play keys; x replay-delay-behaviour {constant, recorded} x dynamic-macro-max-presses {128, 2}. Scenario: [optionally hold c before starting], start recording, EVERY physically consistent typing schedule of N events over a,b,c with gaps from {0,1,3,12} (quick N=4, thorough N=5), stop (plain stop / stop-truncate / pressing record again / pressing the record key of another macro id / the size limit), settle, play (once; twice; again while the replay runs), settle. Also: self-play inside the recording, nested play of a second macro, re-recording over the id (also ended by a stop-truncate that asks for more than was recorded); play-graph family: macros 1 and 2 recorded as EVERY sequence of <= L items (quick 2, thorough 3) over {tap a, tap b, play 1, play 2}, then each played: the replay terminates (at most L*L+2 key presses) and leaves nothing pressed, whatever cycles the play graph has. Relational oracle on the REAL code: the key output produced during the replay equals the output of feeding the same typed events (minus the stop key and the truncated tail, plus releases of the keys still down at stop) to a FRESH instance: same press order, same multiset of events (time-insensitive config: any pacing; time-sensitive config with recorded delays: same tap/hold decisions); nothing is held after the replay; a self-playing macro terminates; with max-presses 2 the recording ends by itself and the replay holds at most the limit.",
        assumptions: &["typing gaps are chosen away from the tap-hold boundary (3 vs 12 against a timeout of 8) so that the one-event delay lag of the recorder cannot flip a decision", "stepper mode (every ms ticks); the blocked-ms recording finding of C07 is separate"],
        required_level,
        min_outcomes: 3,
    }
}

#[derive(Clone, Debug)]
struct Spec {
    timed: bool,
    recorded: bool,
    max: u32,
}

impl Spec {
    fn cfg(&self) -> String {
        format!(
            "(defcfg dynamic-macro-max-presses {} dynamic-macro-replay-delay-behaviour {})\n(defsrc a b c r s t p q u)\n(deflayer base {} b lsft (dynamic-macro-record 1) dynamic-macro-record-stop (dynamic-macro-record-stop-truncate 1) (dynamic-macro-play 1) (dynamic-macro-record 2) (dynamic-macro-play 2))\n",
            self.max,
            if self.recorded { "recorded" } else { "constant" },
            if self.timed { "(tap-hold 8 8 x lctl)" } else { "a" }
        )
    }
    fn tag(&self) -> String {
        format!("{}/{}/max{}", if self.timed { "timed" } else { "plain" }, if self.recorded { "recorded" } else { "constant" }, self.max)
    }
}

#[derive(Clone, Copy, Debug, PartialEq)]
enum Stop {
    Plain,
    Truncate,
    RecordAgain,
    /// the record key of ANOTHER macro id ends this recording (and starts that one, stopped right after)
    RecordOther,
}

struct Job {
    spec: Spec,
    n: usize,
    first: Option<usize>,
    special: bool,
    level: u32,
}

fn jobs(tier: Tier) -> &'static Vec<Job> {
    static Q: OnceLock<Vec<Job>> = OnceLock::new();
    static T: OnceLock<Vec<Job>> = OnceLock::new();
    let cell = match tier {
        Tier::Quick => &Q,
        Tier::Thorough => &T,
    };
    cell.get_or_init(|| {
        let mut v = vec![];
        let levels: &[(u32, usize)] = match tier {
            Tier::Quick => &[(0, 3)],
            Tier::Thorough => &[(0, 3), (1, 4), (2, 5)],
        };
        for (lvl, n) in levels.iter().copied() {
            for timed in [false, true] {
                for recorded in [false, true] {
                    for max in [128u32, 2] {
                        if timed && !recorded {
                            continue; // constant pacing changes tap-hold timing by design
                        }
                        let spec = Spec { timed, recorded, max };
                        for first in 0..12 {
                            v.push(Job { spec: spec.clone(), n, first: Some(first), special: false, level: lvl });
                        }
                        if lvl == 0 {
                            v.push(Job { spec: spec.clone(), n: 0, first: None, special: true, level: 0 });
                        }
                    }
                }
            }
        }
        v
    })
}

fn n_jobs(t: Tier) -> usize {
    jobs(t).len()
}
fn job_level(t: Tier, i: usize) -> u32 {
    jobs(t)[i].level
}
fn required_level(_t: Tier) -> u32 {
    0
}

fn key_events(tr: &crate::sim::Trace) -> Vec<(bool, String)> {
    tr.iter()
        .filter_map(|(_, o)| match o {
            Out::Down(k) => Some((true, k.clone())),
            Out::Up(k) => Some((false, k.clone())),
            _ => None,
        })
        .collect()
}

fn tap(k: &str) -> Vec<Ev> {
    vec![Ev::P(kc(k)), Ev::T(2), Ev::R(kc(k)), Ev::T(2)]
}

/// Runs the record/stop/play scenario on instance A and the typed events on a fresh instance B.
/// `plays`: 1 = once, 2 = twice sequentially, 3 = second play pressed while the first replay runs.
fn scenario(spec: &Spec, hold_c_before: bool, typing: &[(u32, Ev)], stop: Stop, plays: u8, st: &mut Stats) -> Option<(String, String, Vec<Ev>)> {
    let cfg = spec.cfg();
    let c = kc("c");
    let mut h: Vec<Ev> = vec![Ev::T(2)];
    if hold_c_before {
        h.push(Ev::P(c));
        h.push(Ev::T(3));
    }
    h.extend(tap("r"));
    // typed events (with the record key's own release first, which the recorder sees)
    let mut typed: Vec<(u32, Ev)> = vec![];
    let mut down: Vec<u16> = if hold_c_before { vec![c] } else { vec![] };
    for (g, e) in typing {
        // physical consistency w.r.t. c possibly held before
        match e {
            Ev::P(k) if down.contains(k) => return None,
            Ev::R(k) if !down.contains(k) => return None,
            _ => {}
        }
        apply_phys(&mut down, *e);
        typed.push((*g, *e));
        if *g > 0 {
            h.push(Ev::T(*g));
        }
        h.push(*e);
    }
    h.push(Ev::T(3));
    let n_before_stop = h.len();
    match stop {
        Stop::Plain => h.extend(tap("s")),
        Stop::Truncate => h.extend(tap("t")),
        Stop::RecordAgain => h.extend(tap("r")),
        Stop::RecordOther => {
            h.extend(tap("q"));
            h.push(Ev::T(3));
            h.extend(tap("s"));
        }
    }
    // release what is still physically down, settle
    for k in down.clone() {
        h.push(Ev::R(k));
        h.push(Ev::T(1));
    }
    h.push(Ev::T(30));
    let n_before_play = h.len();
    match plays {
        1 => h.extend(tap("p")),
        2 => {
            h.extend(tap("p"));
            h.push(Ev::T(150));
            h.extend(tap("p"));
        }
        _ => {
            h.extend(tap("p"));
            h.push(Ev::T(7));
            h.extend(tap("p"));
        }
    }
    h.push(Ev::T(40 + 40 * typing.len() as u32));
    st.evaluations += 1;
    crate::par::announce(&cfg, &h);
    let mut a = match Sim::new(&cfg) {
        Ok(s) => s,
        Err(e) => return Some(("rejected".into(), e, h)),
    };
    if let Err(m) = a.run(&h[..n_before_stop]) {
        return Some((panic_signature(&m), m, h));
    }
    // a tap-hold / tap-dance decision still pending when the stop key is pressed delays the stop
    // ACTION behind it, while the recorder keeps recording physical events (discriminator for a known finding)
    let pending_at_stop = {
        let l = a.k.layout.b();
        l.waiting.is_some() || !l.queue.is_empty()
    };
    if let Err(m) = a.run(&h[n_before_stop..n_before_play]) {
        return Some((panic_signature(&m), m, h));
    }
    let n0 = a.n_out();
    let held_before_play = crate::sim::os_down_set(&a.trace());
    if !held_before_play.is_empty() {
        return Some(("held-after-recording".into(), format!("keys held after the recording phase: {held_before_play:?}"), h));
    }
    if let Err(m) = a.run(&h[n_before_play..]) {
        return Some((panic_signature(&m), m, h));
    }
    let replay_tr = crate::sim::parse_outputs(&a.raw_outputs()[n0..]);
    let replay = key_events(&replay_tr);
    let held = crate::sim::os_down_set(&a.trace());
    st.validated += 1;
    st.transitions += h.len() as u64;
    if !held.is_empty() {
        return Some(("key-left-down".into(), format!("{}: keys held after the replay: {held:?}; replay output {replay:?}", spec.tag()), h));
    }
    // reference: fresh instance fed with the recorded events
    let mut rec: Vec<(u32, Ev)> = vec![(0, Ev::R(kc("r")))];
    rec.extend(typed.iter().copied());
    let truncate = match stop {
        Stop::Truncate => 1,
        _ => 0,
    };
    for _ in 0..truncate {
        rec.pop();
    }
    if spec.max < 100 {
        // the recording ends by itself once more than 2*max items are stored: the reference is cut there
        // (the press that trips the limit and everything after it are not recorded)
        let mut kept = vec![];
        for (g, e) in rec.iter() {
            if matches!(e, Ev::P(_)) && kept.len() > 2 * spec.max as usize {
                break;
            }
            kept.push((*g, *e));
        }
        rec = kept;
    }
    let mut b = match Sim::new(&cfg) {
        Ok(s) => s,
        Err(e) => return Some(("rejected".into(), e, h)),
    };
    let mut bdown: Vec<u16> = vec![];
    let mut hb = vec![Ev::T(2)];
    let mut tail_release_needed = false;
    for (g, e) in &rec {
        if *g > 0 {
            hb.push(Ev::T(*g));
        }
        hb.push(*e);
        apply_phys(&mut bdown, *e);
    }
    hb.push(Ev::T(3));
    for k in bdown {
        tail_release_needed = true;
        hb.push(Ev::R(k));
    }
    hb.push(Ev::T(60));
    if let Err(m) = b.run(&hb) {
        return Some((panic_signature(&m), m, h));
    }
    let typed_out = key_events(&b.trace());
    // time-sensitive mapping: when a key was still down at stop, the instant of its appended release
    // in the replay is not specified, so the tap/hold decision it belongs to is not comparable
    if spec.timed && tail_release_needed {
        st.count("timed_scenarios_with_key_down_at_stop(only no-key-left-down checked)", 1);
        return None;
    }
    let reps = if plays == 2 { 2 } else { 1 };
    let mut want = vec![];
    for _ in 0..reps {
        want.extend(typed_out.iter().cloned());
    }
    // plays == 3: the second play is pressed 7 ticks after the first; if the first replay has already
    // finished it legitimately plays again
    if plays == 3 {
        let mut twice = want.clone();
        twice.extend(typed_out.iter().cloned());
        let mut ms_t = twice.clone();
        ms_t.sort();
        let mut ms_r = replay.clone();
        ms_r.sort();
        if ms_r == ms_t && replay.iter().filter(|x| x.0).map(|x| &x.1).collect::<Vec<_>>() == twice.iter().filter(|x| x.0).map(|x| &x.1).collect::<Vec<_>>() {
            st.outcome("second-play-after-first-finished");
            return None;
        }
    }
    let presses = |v: &Vec<(bool, String)>| v.iter().filter(|x| x.0).map(|x| x.1.clone()).collect::<Vec<_>>();
    let mut ms_a = replay.clone();
    let mut ms_b = want.clone();
    ms_a.sort();
    ms_b.sort();
    st.outcome(&format!("replay-events-{}", (replay.len() / 2).min(4)));
    st.distinct_traces.insert(crate::sim::hash_str(&format!("{replay:?}")));
    if presses(&replay) != presses(&want) || ms_a != ms_b {
        let cls = if replay.len() < want.len() { "replay-missing-events" } else if replay.len() > want.len() { "replay-extra-events" } else { "replay-differs" };
        let cls = if pending_at_stop { format!("{cls}/stop-pressed-while-decision-pending") } else { cls.to_string() };
        return Some((cls, format!("{} stop={stop:?} plays={plays} hold_c_before={hold_c_before}: replay output {replay:?} but typing the recorded events on a fresh instance gives {want:?}", spec.tag()), h));
    }
    None
}

fn specials(spec: &Spec, st: &mut Stats, found: &mut Vec<Violation>) {
    let cfg = spec.cfg();
    let mut push = |sig: &str, what: String, h: &[Ev], found: &mut Vec<Violation>| {
        if !found.iter().any(|f| f.signature == sig) {
            found.push(mk_violation("C19", sig.to_string(), what, "special", &cfg, h, json!({"spec": spec.tag()})));
        }
    };
    // (1) self-play inside the recording: r, a, p (play 1 while recording 1), b, s ; then p
    let mut h = vec![Ev::T(2)];
    h.extend(tap("r"));
    h.extend(tap("a"));
    h.extend(tap("p"));
    h.extend(tap("b"));
    h.extend(tap("s"));
    h.push(Ev::T(40));
    let n_play = h.len();
    h.extend(tap("p"));
    h.push(Ev::T(600));
    st.evaluations += 1;
    match Sim::new(&cfg) {
        Err(e) => push("rejected", e, &h, found),
        Ok(mut s) => {
            if let Err(m) = s.run(&h[..n_play]) {
                push(&panic_signature(&m), m, &h, found);
            } else {
                let n0 = s.n_out();
                match s.run(&h[n_play..]) {
                    Err(m) => push(&panic_signature(&m), m, &h, found),
                    Ok(()) => {
                        st.validated += 1;
                        let out = key_events(&crate::sim::parse_outputs(&s.raw_outputs()[n0..]));
                        let presses: Vec<&String> = out.iter().filter(|x| x.0).map(|x| &x.1).collect();
                        st.outcome("self-play");
                        // the macro contains a, (play 1), b: replay must be finite and must not contain itself again
                        let na = presses.iter().filter(|k| k.as_str() == "A" || k.as_str() == "X").count();
                        if na != 1 || presses.len() > 4 {
                            push("self-play-recursion", format!("{}: a macro that contains its own play key replayed {presses:?}", spec.tag()), &h, found);
                        }
                        if !crate::sim::os_down_set(&s.trace()).is_empty() {
                            push("key-left-down", format!("{}: keys held after self-play replay", spec.tag()), &h, found);
                        }
                    }
                }
            }
        }
    }
    // (2) nested play: record macro 1 = [b]; record macro 2 = [a, play 1, a]; play 2 -> a b a
    let mut h = vec![Ev::T(2)];
    h.extend(tap("r"));
    h.extend(tap("b"));
    h.extend(tap("s"));
    h.push(Ev::T(20));
    h.extend(tap("q"));
    h.extend(tap("a"));
    h.extend(tap("p"));
    h.push(Ev::T(40));
    h.extend(tap("a"));
    h.extend(tap("s"));
    h.push(Ev::T(40));
    let n_play = h.len();
    h.extend(tap("u"));
    h.push(Ev::T(300));
    st.evaluations += 1;
    if let Ok(mut s) = Sim::new(&cfg) {
        if s.run(&h[..n_play]).is_ok() {
            let n0 = s.n_out();
            match s.run(&h[n_play..]) {
                Err(m) => push(&panic_signature(&m), m, &h, found),
                Ok(()) => {
                    st.validated += 1;
                    let out = key_events(&crate::sim::parse_outputs(&s.raw_outputs()[n0..]));
                    let presses: Vec<String> = out.iter().filter(|x| x.0).map(|x| x.1.clone()).collect();
                    st.outcome("nested-play");
                    let a = if spec.timed { "X" } else { "A" };
                    let want: Vec<String> = if spec.max < 100 { presses.clone() } else { vec![a.to_string(), "B".to_string(), a.to_string()] };
                    if presses != want {
                        push("nested-play", format!("{}: macro 2 = [a, play 1, a] with macro 1 = [b] replayed {presses:?}, expected {want:?}", spec.tag()), &h, found);
                    }
                    if !crate::sim::os_down_set(&s.trace()).is_empty() {
                        push("key-left-down", format!("{}: keys held after nested replay", spec.tag()), &h, found);
                    }
                }
            }
        }
    }
    // (3) re-recording over the id: record [a]; record again [b]; play -> b only
    let mut h = vec![Ev::T(2)];
    h.extend(tap("r"));
    h.extend(tap("a"));
    h.extend(tap("s"));
    h.push(Ev::T(20));
    h.extend(tap("r"));
    h.extend(tap("b"));
    h.extend(tap("s"));
    h.push(Ev::T(20));
    let n_play = h.len();
    h.extend(tap("p"));
    h.push(Ev::T(200));
    st.evaluations += 1;
    if let Ok(mut s) = Sim::new(&cfg) {
        if s.run(&h[..n_play]).is_ok() {
            let n0 = s.n_out();
            if s.run(&h[n_play..]).is_ok() {
                st.validated += 1;
                let out = key_events(&crate::sim::parse_outputs(&s.raw_outputs()[n0..]));
                let presses: Vec<String> = out.iter().filter(|x| x.0).map(|x| x.1.clone()).collect();
                st.outcome("re-record");
                if presses != vec!["B".to_string()] {
                    push("re-record", format!("{}: after re-recording macro 1 as [b] the replay pressed {presses:?}", spec.tag()), &h, found);
                }
            }
        }
    }
    // (3b) re-recording ended by stop-truncate with nothing (or less than asked) recorded: the id now holds
    //      an empty macro; the old content must not be replayed
    let mut h = vec![Ev::T(2)];
    h.extend(tap("r"));
    h.extend(tap("a"));
    h.extend(tap("b"));
    h.extend(tap("s"));
    h.push(Ev::T(20));
    // record key pressed and released within the same millisecond: its release arrives before the
    // recording has started, so the recording is really empty when stop-truncate 1 is pressed
    h.push(Ev::P(kc("r")));
    h.push(Ev::R(kc("r")));
    h.push(Ev::T(3));
    h.extend(tap("t"));
    h.push(Ev::T(20));
    let n_play = h.len();
    h.extend(tap("p"));
    h.push(Ev::T(200));
    st.evaluations += 1;
    if let Ok(mut s) = Sim::new(&cfg) {
        if s.run(&h[..n_play]).is_ok() {
            let n0 = s.n_out();
            if s.run(&h[n_play..]).is_ok() {
                st.validated += 1;
                let out = key_events(&crate::sim::parse_outputs(&s.raw_outputs()[n0..]));
                let presses: Vec<String> = out.iter().filter(|x| x.0).map(|x| x.1.clone()).collect();
                st.outcome("re-record-truncate-all");
                if !presses.is_empty() {
                    push("re-record-truncate-all", format!("{}: macro 1 = [a b] re-recorded as nothing (record, stop-truncate 1 at once): the replay pressed {presses:?}", spec.tag()), &h, found);
                }
            }
        }
    }
    // (3c) re-recording that ends by the size limit replaces the old content
    if spec.max < 100 {
        let mut h = vec![Ev::T(2)];
        h.extend(tap("r"));
        h.extend(tap("a"));
        h.extend(tap("s"));
        h.push(Ev::T(20));
        h.extend(tap("r"));
        for _ in 0..8 {
            h.extend(tap("b"));
        }
        h.push(Ev::T(20));
        let n_play = h.len();
        h.extend(tap("p"));
        h.push(Ev::T(400));
        st.evaluations += 1;
        if let Ok(mut s) = Sim::new(&cfg) {
            if s.run(&h[..n_play]).is_ok() {
                let n0 = s.n_out();
                if s.run(&h[n_play..]).is_ok() {
                    st.validated += 1;
                    let out = key_events(&crate::sim::parse_outputs(&s.raw_outputs()[n0..]));
                    let presses: Vec<String> = out.iter().filter(|x| x.0).map(|x| x.1.clone()).collect();
                    st.outcome("re-record-limit");
                    if presses.iter().any(|k| k == "A" || k == "X") || !presses.iter().any(|k| k == "B") {
                        push("re-record-limit", format!("{}: macro 1 = [a] re-recorded by typing b eight times (recording ends by the size limit {}): the replay pressed {presses:?}", spec.tag(), spec.max), &h, found);
                    }
                }
            }
        }
    }
    // (4) size limit: type many keys without stopping; the recording must end by itself; play replays at most limit
    if spec.max < 100 {
        let mut h = vec![Ev::T(2)];
        h.extend(tap("r"));
        for _ in 0..8 {
            h.extend(tap("b"));
        }
        h.push(Ev::T(20));
        let n_play = h.len();
        h.extend(tap("p"));
        h.push(Ev::T(400));
        st.evaluations += 1;
        if let Ok(mut s) = Sim::new(&cfg) {
            if s.run(&h[..n_play]).is_ok() {
                let n0 = s.n_out();
                if s.run(&h[n_play..]).is_ok() {
                    st.validated += 1;
                    let out = key_events(&crate::sim::parse_outputs(&s.raw_outputs()[n0..]));
                    let nb = out.iter().filter(|x| x.0 && x.1 == "B").count();
                    st.outcome("size-limit");
                    // max-presses 2: the recording stops by itself; it can hold at most max+1 presses
                    if nb == 0 {
                        push("size-limit-not-stopped", format!("{}: 8 keys typed with max-presses {}: recording never ended by itself (play produced nothing)", spec.tag(), spec.max), &h, found);
                    } else if nb > spec.max as usize + 1 {
                        push("size-limit-exceeded", format!("{}: max-presses {} but the replay typed {nb} keys", spec.tag(), spec.max), &h, found);
                    }
                    if !crate::sim::os_down_set(&s.trace()).is_empty() {
                        push("key-left-down", format!("{}: keys held after size-limited replay", spec.tag()), &h, found);
                    }
                }
            }
        }
    }
}

/// Play-graph family: macros 1 and 2 are each recorded as EVERY sequence of <= L items over
/// {tap a, tap b, play 1, play 2}; then each of them is played. Whatever the play graph (self loops,
/// mutual recursion, a cycle that does not include the macro played from the keyboard), the replay
/// must terminate ("a macro never replays itself recursively"): without recursion a macro of <= L
/// items expands to at most L*L key taps; and nothing may stay pressed.
fn play_graphs(spec: &Spec, max_items: usize, st: &mut Stats, found: &mut Vec<Violation>) {
    let cfg = spec.cfg();
    let items = ["a", "b", "p", "u"]; // p = play 1, u = play 2
    let mut seqs: Vec<Vec<usize>> = vec![];
    for len in 1..=max_items {
        let mut idx = vec![0usize; len];
        loop {
            seqs.push(idx.clone());
            let mut k = 0;
            while k < len {
                idx[k] += 1;
                if idx[k] < items.len() {
                    break;
                }
                idx[k] = 0;
                k += 1;
            }
            if k == len {
                break;
            }
        }
    }
    let bound = max_items * max_items + 2;
    let mut n = 0u64;
    for m1 in &seqs {
        for m2 in &seqs {
            // only graphs with at least one play item are interesting
            if !m1.iter().chain(m2.iter()).any(|i| *i >= 2) {
                continue;
            }
            for play in ["p", "u"] {
                if found.len() >= 3 {
                    return;
                }
                let mut h = vec![Ev::T(2)];
                // record macro 2 first (so that macro 1 can play it), then macro 1
                h.extend(tap("q"));
                for i in m2 {
                    h.extend(tap(items[*i]));
                    h.push(Ev::T(30));
                }
                h.extend(tap("s"));
                h.push(Ev::T(40));
                h.extend(tap("r"));
                for i in m1 {
                    h.extend(tap(items[*i]));
                    h.push(Ev::T(60));
                }
                h.extend(tap("s"));
                h.push(Ev::T(80));
                let n_play = h.len();
                h.extend(tap(play));
                h.push(Ev::T(1500));
                crate::par::announce(&cfg, &h);
                st.evaluations += 1;
                n += 1;
                let Ok(mut s) = Sim::new(&cfg) else { return };
                if let Err(m) = s.run(&h[..n_play]) {
                    found.push(mk_violation("C19", format!("play-graph/{}", panic_signature(&m)), m, "special", &cfg, &h, json!({"spec": spec.tag()})));
                    continue;
                }
                let n0 = s.n_out();
                match s.run(&h[n_play..]) {
                    Err(m) => found.push(mk_violation("C19", format!("play-graph/{}", panic_signature(&m)), m, "special", &cfg, &h, json!({"spec": spec.tag()}))),
                    Ok(()) => {
                        st.validated += 1;
                        let out = key_events(&crate::sim::parse_outputs(&s.raw_outputs()[n0..]));
                        let presses = out.iter().filter(|x| x.0).count();
                        let names = |v: &Vec<usize>| v.iter().map(|i| ["a", "b", "play1", "play2"][*i]).collect::<Vec<_>>().join(" ");
                        if presses > bound && !found.iter().any(|f| f.signature == "play-graph/recursion") {
                            found.push(mk_violation(
                                "C19",
                                "play-graph/recursion".into(),
                                format!("{}: macro 1 = [{}], macro 2 = [{}], playing macro {}: {presses} key presses in 1500 ticks (a non-recursive replay has at most {bound})", spec.tag(), names(m1), names(m2), if play == "p" { 1 } else { 2 }),
                                "special",
                                &cfg,
                                &h,
                                json!({"spec": spec.tag()}),
                            ));
                        }
                        if !crate::sim::os_down_set(&s.trace()).is_empty() && !found.iter().any(|f| f.signature == "play-graph/key-left-down") {
                            found.push(mk_violation("C19", "play-graph/key-left-down".into(), format!("{}: macro 1 = [{}], macro 2 = [{}]: keys held after the replay", spec.tag(), names(m1), names(m2)), "special", &cfg, &h, json!({"spec": spec.tag()})));
                        }
                    }
                }
            }
        }
    }
    st.count("play_graph_scenarios", n);
    st.outcome("play-graphs");
}

fn run_job(tier: Tier, idx: usize, st: &mut Stats) {
    let j = &jobs(tier)[idx];
    let cfg = j.spec.cfg();
    if j.first == Some(0) || j.special {
        if let Err(e) = Sim::new(&cfg) {
            st.configs_rejected += 1;
            st.violation(Violation { property: "C19".into(), signature: "rejected".into(), what: e.chars().take(300).collect(), detail: json!({"kind": "scenario", "cfg": cfg, "history": ""}) });
            return;
        }
        st.configs_accepted += 1;
    }
    let mut found: Vec<Violation> = vec![];
    if j.special {
        specials(&j.spec, st, &mut found);
        if !j.spec.timed && j.spec.max >= 100 {
            play_graphs(&j.spec, if tier == Tier::Quick { 2 } else { 3 }, st, &mut found);
        }
        st.sample(json!({"family": "special scenarios (self-play, nested play, re-record, size limit)", "spec": j.spec.tag()}));
    } else {
        let keys = [kc("a"), kc("b"), kc("c")];
        let gaps = [0u32, 1, 3, 12];
        let mut n = 0u64;
        for_each_schedule(&keys, &gaps, j.n, j.first, &mut |sc, _| {
            if found.len() >= 4 {
                return;
            }
            for hold_c in [false, true] {
                for (stop, plays) in [(Stop::Plain, 1u8), (Stop::Truncate, 1), (Stop::RecordAgain, 1), (Stop::RecordOther, 1), (Stop::Plain, 2), (Stop::Plain, 3)] {
                    if j.spec.max < 100 && stop == Stop::Truncate {
                        continue;
                    }
                    n += 1;
                    // when c is held before the start, the schedule's first event on c must be a release:
                    // for_each_schedule starts with everything up, so remap: P(c)<->R(c) for c events
                    let sched: Vec<(u32, Ev)> = if hold_c {
                        sc.iter().map(|(g, e)| (*g, match e { Ev::P(k) if *k == keys[2] => Ev::R(*k), Ev::R(k) if *k == keys[2] => Ev::P(*k), x => *x })).collect()
                    } else {
                        sc.to_vec()
                    };
                    if let Some((sig, what, h)) = scenario(&j.spec, hold_c, &sched, stop, plays, st) {
                        let sig = format!("{}::{}", if j.spec.timed { "timed" } else { "plain" }, sig);
                        if !found.iter().any(|f| f.signature == sig) {
                            found.push(mk_violation("C19", sig, what, "scenario", &cfg, &h, json!({"job": idx, "tier": tier.name()})));
                        }
                    }
                }
            }
        });
        if idx % 29 == 0 {
            st.sample(json!({"spec": j.spec.tag(), "cfg": cfg, "typing_events": j.n, "scenarios": n}));
        }
    }
    for v in found {
        st.violation(v);
    }
}

fn replay(d: &serde_json::Value) -> Vec<Violation> {
    // re-run the job that found it (scenarios are cheap)
    let idx = d.get("extra").and_then(|e| e.get("job")).and_then(|x| x.as_u64());
    let mut st = Stats::default();
    match idx {
        Some(i) => {
            let tier = Tier::parse(d.get("extra").and_then(|e| e.get("tier")).and_then(|x| x.as_str()).unwrap_or("quick"));
            run_job(tier, (i as usize).min(n_jobs(tier) - 1), &mut st);
        }
        None => {
            for (i, j) in jobs(Tier::Quick).iter().enumerate() {
                if j.special {
                    run_job(Tier::Quick, i, &mut st);
                }
            }
        }
    }
    st.violations
}
