//! C20 — zippychord leaves exactly the expansion on screen.
use super::*;
use crate::explore::*;
use crate::par::{PropDef, Stats, Tier};
use crate::sim::{kc, Ev, Out, Sim};
use serde_json::json;
use std::sync::OnceLock;

pub fn def() -> PropDef {
    PropDef {
        id: "C20",
        level: "model_checking",
        n_jobs,
        job_level,
        run_job,
        replay,
        rule: "dictionaries: ALL sets of 1-2 entries (quick; thorough: 1-3) with key sets from {ab, ac, bc, abc} and outputs from a 6-string pool (lower case, capitalised, sharing a prefix with another output, containing the chord letters, ending in a backspace, ending in a space), plus dictionaries with a follow-up entry; x smart-space {none, add-space-only, full}. Structured histories: for EVERY entry EVERY permutation of its keys with inter-press gaps from {0,1,deadline-1}, without shift / with lsft / with rsft held by the user / with both shifts pressed and one of them released again before the chord, keys then released in both orders, followed by nothing / one further non-chord key; follow-up chords typed after their first chord; two-round scenarios: every ordered pair of entries (including the same entry twice), the first chord plain / interrupted by another key while held / held past the deadline, idle past idle-reactivate-time, then the second chord in every press order. Generic histories: ALL physically consistent histories of D steps over press/release of a,b,c,lsft + tick 1. Oracle: the OS output is replayed into a text-buffer model (US layout, shift state, backspace deletes one character): after a completed chord the visible text is exactly the entry's expansion (first letter capitalised when the user holds shift: either form accepted) plus the smart space when enabled, then the continuation key; histories in which no entry's key set is ever down together leave exactly the typed letters; the OS shift state at the end equals the physical one; nothing is held after release.",
        assumptions: &["US layout text model; output-character-mappings not exercised", "one dictionary per process at a time (zippychord state is process-global)"],
        required_level,
        min_outcomes: 3,
    }
}

const KEYSETS: [&str; 4] = ["ab", "ac", "bc", "abc"];
const POOL: [&str; 6] = ["xy", "Xy", "xyz", "ab", "q⌫", "w "];
const DEADLINE: u32 = 8;

#[derive(Clone, Debug)]
struct Dict {
    entries: Vec<(usize, usize)>, // (keyset idx, output idx)
    followup: bool,               // adds "ab d\tfollow"
    smart: u8,                    // 0 none 1 add-space-only 2 full
}

impl Dict {
    fn file(&self) -> String {
        let mut s = String::new();
        for (k, o) in &self.entries {
            s += &format!("{}\t{}\n", KEYSETS[*k], POOL[*o]);
        }
        if self.followup {
            s += &format!("{} c\tfollow\n", KEYSETS[self.entries[0].0]);
        }
        s
    }
    fn cfg(&self) -> String {
        format!(
            "(defcfg)\n(defsrc a b c d lsft rsft)\n(deflayer base a b c d lsft rsft)\n(defzippy file on-first-press-chord-deadline {DEADLINE} idle-reactivate-time 5 smart-space {})\n",
            ["none", "add-space-only", "full"][self.smart as usize]
        )
    }
    fn tag(&self) -> String {
        format!("{}{}/ss{}", self.entries.iter().map(|(k, o)| format!("{}>{}", KEYSETS[*k], POOL[*o].replace('⌫', "<BS>"))).collect::<Vec<_>>().join(","), if self.followup { "+followup" } else { "" }, self.smart)
    }
}

fn dicts(tier: Tier) -> Vec<Dict> {
    let mut v = vec![];
    for smart in 0..3u8 {
        for k1 in 0..4 {
            for o1 in 0..6 {
                v.push(Dict { entries: vec![(k1, o1)], followup: false, smart });
                if o1 == 0 && k1 != 3 {
                    v.push(Dict { entries: vec![(k1, o1)], followup: true, smart });
                }
                for k2 in k1 + 1..4 {
                    for o2 in 0..6 {
                        // quick: pairs where the key sets are nested (ab/ac/bc inside abc) get all outputs; others o1==o2 skipped
                        if tier == Tier::Quick && k2 != 3 && (o1 + o2) % 3 != 0 {
                            continue;
                        }
                        v.push(Dict { entries: vec![(k1, o1), (k2, o2)], followup: false, smart });
                        if tier == Tier::Thorough {
                            for k3 in k2 + 1..4 {
                                for o3 in 0..6 {
                                    if (o1 + o2 + o3) % 2 == 0 {
                                        v.push(Dict { entries: vec![(k1, o1), (k2, o2), (k3, o3)], followup: false, smart });
                                    }
                                }
                            }
                        }
                    }
                }
            }
        }
    }
    v
}

struct Job {
    dict: Dict,
    generic: Option<usize>,
}

fn jobs(tier: Tier) -> &'static Vec<Job> {
    static Q: OnceLock<Vec<Job>> = OnceLock::new();
    static T: OnceLock<Vec<Job>> = OnceLock::new();
    let cell = match tier {
        Tier::Quick => &Q,
        Tier::Thorough => &T,
    };
    cell.get_or_init(|| {
        let mut v = vec![];
        for (i, d) in dicts(tier).into_iter().enumerate() {
            v.push(Job { dict: d.clone(), generic: None });
            if i % 12 == 0 {
                v.push(Job { dict: d, generic: Some(if tier == Tier::Quick { 5 } else { 6 }) });
            }
        }
        v
    })
}

fn n_jobs(t: Tier) -> usize {
    jobs(t).len()
}
fn job_level(_t: Tier, _i: usize) -> u32 {
    0
}
fn required_level(_t: Tier) -> u32 {
    0
}

/// Text-buffer model: replays the OS output. Returns (text, shift down at the end).
fn text_of(tr: &crate::sim::Trace) -> (String, bool) {
    let mut text: Vec<char> = vec![];
    // key state at the OS is boolean per key: a redundant second press of a held shift is not a second shift
    let (mut lshift, mut rshift) = (false, false);
    for (_, o) in tr {
        let shift = (lshift as i32) + (rshift as i32);
        match o {
            Out::Down(k) => match k.as_str() {
                "LShift" => lshift = true,
                "RShift" => rshift = true,
                "BSpace" => {
                    text.pop();
                }
                "Space" => text.push(' '),
                k if k.len() == 1 && k.chars().all(|c| c.is_ascii_uppercase()) => {
                    let c = k.chars().next().unwrap();
                    text.push(if shift > 0 { c } else { c.to_ascii_lowercase() });
                }
                _ => {}
            },
            Out::Up(k) => {
                if k == "LShift" {
                    lshift = false;
                }
                if k == "RShift" {
                    rshift = false;
                }
            }
            _ => {}
        }
    }
    (text.into_iter().collect(), lshift || rshift)
}

fn visible(output: &str) -> String {
    let mut t: Vec<char> = vec![];
    for c in output.chars() {
        if c == '⌫' {
            t.pop();
        } else {
            t.push(c);
        }
    }
    t.into_iter().collect()
}

fn capitalised(s: &str) -> String {
    let mut c = s.chars();
    match c.next() {
        Some(f) => f.to_uppercase().collect::<String>() + c.as_str(),
        None => String::new(),
    }
}

fn perms(n: usize) -> Vec<Vec<usize>> {
    fn rec(cur: &mut Vec<usize>, n: usize, out: &mut Vec<Vec<usize>>) {
        if cur.len() == n {
            out.push(cur.clone());
            return;
        }
        for i in 0..n {
            if !cur.contains(&i) {
                cur.push(i);
                rec(cur, n, out);
                cur.pop();
            }
        }
    }
    let mut out = vec![];
    rec(&mut vec![], n, &mut out);
    out
}

fn run_with_file(cfg: &str, file: &str, h: &[Ev]) -> Result<(Sim, crate::sim::Trace), String> {
    let mut files = crate::sim::Files::default();
    files.insert("file".to_string(), file.to_string());
    let mut s = Sim::new_with_files(cfg, files)?;
    s.run(h)?;
    let t = s.trace();
    Ok((s, t))
}

fn run_structured(d: &Dict, st: &mut Stats, found: &mut Vec<Violation>) {
    let cfg = d.cfg();
    let file = d.file();
    let gaps = [0u32, 1, DEADLINE - 1];
    let lsft = kc("lsft");
    let mut targets: Vec<(Vec<&str>, String, bool)> = vec![]; // (key names in set, expansion, is_followup)
    for (k, o) in &d.entries {
        let keys: Vec<&str> = KEYSETS[*k].chars().map(|c| match c {
            'a' => "a",
            'b' => "b",
            _ => "c",
        }).collect();
        targets.push((keys, POOL[*o].to_string(), false));
    }
    for (ei, (keys, expansion, _)) in targets.iter().enumerate() {
        // an entry whose key set is contained in another entry's: pressing exactly this set still must give this expansion
        for pp in perms(keys.len()) {
            let ng = keys.len() - 1;
            let mut gv = vec![0usize; ng];
            loop {
                // shift modes: 0 none, 1 lsft held, 2 rsft held, 3 both pressed and rsft released before the chord
                // (lsft still held), 4 both pressed and lsft released before the chord (rsft still held)
                for smode in 0..5u8 {
                    let shift = smode > 0;
                    let held_shift = if smode == 2 || smode == 4 { kc("rsft") } else { lsft };
                    for rel_rev in [false, true] {
                        for cont in [false, true] {
                            if found.len() >= 4 {
                                return;
                            }
                            let mut h = vec![Ev::T(10)];
                            if shift {
                                h.push(Ev::P(held_shift));
                                h.push(Ev::T(3));
                            }
                            if smode >= 3 {
                                let other = if smode == 3 { kc("rsft") } else { lsft };
                                h.push(Ev::P(other));
                                h.push(Ev::T(3));
                                h.push(Ev::R(other));
                                h.push(Ev::T(3));
                            }
                            for (i, pi) in pp.iter().enumerate() {
                                if i > 0 && gaps[gv[i - 1]] > 0 {
                                    h.push(Ev::T(gaps[gv[i - 1]]));
                                }
                                h.push(Ev::P(kc(keys[*pi])));
                            }
                            h.push(Ev::T(3));
                            let mut order: Vec<usize> = pp.clone();
                            if rel_rev {
                                order.reverse();
                            }
                            for pi in order {
                                h.push(Ev::R(kc(keys[pi])));
                                h.push(Ev::T(1));
                            }
                            if shift {
                                h.push(Ev::T(2));
                            }
                            if cont {
                                h.push(Ev::T(2));
                                h.push(Ev::P(kc("d")));
                                h.push(Ev::T(2));
                                h.push(Ev::R(kc("d")));
                            }
                            h.push(Ev::T(6));
                            // shift is still physically held here: check restoration, then release
                            let n_check = h.len();
                            if shift {
                                h.push(Ev::R(held_shift));
                            }
                            h.push(Ev::T(20));
                            st.evaluations += 1;
                            crate::par::announce_value(&json!({"cfg": cfg, "file": file, "history": crate::sim::hist_to_string(&h)}));
                            let mid = run_with_file(&cfg, &file, &h[..n_check]);
                            let (shift_mid, text) = match &mid {
                                Ok((_, tr)) => {
                                    let (t, s) = text_of(tr);
                                    (s, t)
                                }
                                Err(m) => {
                                    if !found.iter().any(|f| f.signature == panic_signature(m)) {
                                        found.push(mk_violation("C20", panic_signature(m), m.clone(), "structured", &cfg, &h, json!({"file": file})));
                                    }
                                    continue;
                                }
                            };
                            let full = run_with_file(&cfg, &file, &h);
                            let held = match &full {
                                Ok((_, tr)) => crate::sim::os_down_set(tr),
                                Err(m) => {
                                    found.push(mk_violation("C20", panic_signature(m), m.clone(), "structured", &cfg, &h, json!({"file": file})));
                                    continue;
                                }
                            };
                            st.validated += 1;
                            st.transitions += h.len() as u64;
                            // expectation
                            let vis = visible(expansion);
                            let ends_plain = !(expansion.ends_with(' ') || expansion.ends_with('⌫'));
                            let mut want = vis.clone();
                            if d.smart >= 1 && ends_plain {
                                want.push(' ');
                            }
                            let mut want_cap = capitalised(&vis);
                            if d.smart >= 1 && ends_plain {
                                want_cap.push(' ');
                            }
                            let tail = if cont { if shift { "D" } else { "d" } } else { "" };
                            // the chord must complete within the deadline counted from the first press; every
                            // queued press takes one tick to be processed: only spans clearly inside are strict
                            let span: u32 = (1..pp.len()).map(|i| gaps[gv[i - 1]]).sum::<u32>() + pp.len() as u32;
                            let strict = span + 1 < DEADLINE;
                            let typed_plain: String = pp.iter().map(|pi| keys[*pi]).collect::<String>();
                            let typed_text = if shift { typed_plain.to_uppercase() } else { typed_plain.clone() };
                            let ok = text == format!("{want}{tail}")
                                || (shift && text == format!("{want_cap}{tail}"))
                                || (!strict && text == format!("{typed_text}{tail}"));
                            st.outcome(if shift { "chord/shift" } else { "chord/plain" });
                            st.distinct_traces.insert(crate::sim::hash_str(&text));
                            let sig = if !held.is_empty() {
                                Some(("stuck".to_string(), format!("held after everything was released: {held:?}")))
                            } else if shift_mid != shift {
                                Some(("shift-not-restored".to_string(), format!("user holds shift = {shift}, OS shift state after the chord = {shift_mid}")))
                            } else if !ok {
                                let cls = if text.len() > want.len() + tail.len() { "leftover-characters" } else if text.len() < want.len() + tail.len() { "too-much-erased" } else { "wrong-text" };
                                Some((cls.to_string(), format!("visible text {text:?}, expected {:?}{}", format!("{want}{tail}"), if shift { format!(" or {:?}", format!("{want_cap}{tail}")) } else { String::new() })))
                            } else {
                                None
                            };
                            if let Some((sig, what)) = sig {
                                if !found.iter().any(|f| f.signature == sig) {
                                    found.push(mk_violation("C20", sig, format!("{} entry {ei} [{}]: {what}", d.tag(), crate::sim::hist_to_string(&h)), "structured", &cfg, &h, json!({"file": file})));
                                }
                            }
                        }
                    }
                }
                let mut k = 0;
                while k < ng {
                    gv[k] += 1;
                    if gv[k] < gaps.len() {
                        break;
                    }
                    gv[k] = 0;
                    k += 1;
                }
                if k == ng {
                    break;
                }
            }
        }
    }
    // two rounds: chord E1 (optionally interrupted while held / held past the deadline), everything
    // released, idle past idle-reactivate-time, then chord E2 (possibly the same entry): the second
    // expansion must be typed in full after the first one ("followed by arbitrary further typing")
    let keyset = |k: usize| -> Vec<&'static str> { KEYSETS[k].chars().map(|c| if c == 'a' { "a" } else if c == 'b' { "b" } else { "c" }).collect() };
    // (dictionaries with a follow-up entry are excluded here: the second round's first key may be the follow-up)
    for (k1, o1) in d.entries.iter().filter(|_| !d.followup) {
        for (k2, o2) in &d.entries {
            for interrupt in 0..3u8 {
                for pp2 in perms(keyset(*k2).len()) {
                    if found.len() >= 4 {
                        return;
                    }
                    let (s1, s2) = (keyset(*k1), keyset(*k2));
                    // E1 must not be a strict subset/superset trap: press exactly s1
                    let mut h = vec![Ev::T(10)];
                    for k in &s1 {
                        h.push(Ev::P(kc(k)));
                        h.push(Ev::T(1));
                    }
                    match interrupt {
                        1 => {
                            h.push(Ev::P(kc("d")));
                            h.push(Ev::T(2));
                            h.push(Ev::R(kc("d")));
                            h.push(Ev::T(1));
                        }
                        2 => h.push(Ev::T(DEADLINE + 4)),
                        _ => h.push(Ev::T(2)),
                    }
                    for k in &s1 {
                        h.push(Ev::R(kc(k)));
                        h.push(Ev::T(1));
                    }
                    h.push(Ev::T(12));
                    for pi in &pp2 {
                        h.push(Ev::P(kc(s2[*pi])));
                        h.push(Ev::T(1));
                    }
                    h.push(Ev::T(2));
                    for k in &s2 {
                        h.push(Ev::R(kc(k)));
                        h.push(Ev::T(1));
                    }
                    h.push(Ev::T(20));
                    st.evaluations += 1;
                    match run_with_file(&cfg, &file, &h) {
                        Err(m) => found.push(mk_violation("C20", panic_signature(&m), m, "structured", &cfg, &h, json!({"file": file}))),
                        Ok((_, tr)) => {
                            st.validated += 1;
                            let (text, _) = text_of(&tr);
                            // is s1 the key set of an entry that is NOT a strict subset of another entry's set pressed here? we pressed exactly s1.
                            let exp = |o: usize| {
                                let e = POOL[o];
                                let mut v = visible(e);
                                if d.smart >= 1 && !(e.ends_with(' ') || e.ends_with('⌫')) {
                                    v.push(' ');
                                }
                                v
                            };
                            // a backspace at the start of an expansion would eat into what precedes it; POOL has none
                            let want = format!("{}{}{}", exp(*o1), if interrupt == 1 { "d" } else { "" }, exp(*o2));
                            st.outcome("two-rounds");
                            // smart-space full: typing `d` is not punctuation -> no space erasure
                            if text != want {
                                let bs = d.entries.iter().any(|(_, o)| POOL[*o].contains('⌫'));
                                let sig = format!("two-rounds/{}{}", ["plain", "interrupted-by-key", "held-past-deadline"][interrupt as usize], if bs { "/backspace-in-output" } else { "" });
                                if !found.iter().any(|f| f.signature == sig) {
                                    found.push(mk_violation("C20", sig, format!("{} [{}]: visible text {text:?}, expected {want:?}", d.tag(), crate::sim::hist_to_string(&h)), "structured", &cfg, &h, json!({"file": file})));
                                }
                            }
                        }
                    }
                }
            }
        }
    }
    // follow-up: first chord, release, then key c -> "follow" replaces the first expansion
    if d.followup {
        let keys: Vec<&str> = KEYSETS[d.entries[0].0].chars().map(|c| if c == 'a' { "a" } else if c == 'b' { "b" } else { "c" }).collect();
        for pp in perms(keys.len()) {
            let mut h = vec![Ev::T(10)];
            for pi in &pp {
                h.push(Ev::P(kc(keys[*pi])));
                h.push(Ev::T(1));
            }
            h.push(Ev::T(2));
            for pi in &pp {
                h.push(Ev::R(kc(keys[*pi])));
                h.push(Ev::T(1));
            }
            h.push(Ev::T(2));
            h.push(Ev::P(kc("c")));
            h.push(Ev::T(2));
            h.push(Ev::R(kc("c")));
            h.push(Ev::T(20));
            st.evaluations += 1;
            match run_with_file(&cfg, &file, &h) {
                Err(m) => found.push(mk_violation("C20", panic_signature(&m), m, "structured", &cfg, &h, json!({"file": file}))),
                Ok((_, tr)) => {
                    st.validated += 1;
                    let (text, _) = text_of(&tr);
                    let mut want = "follow".to_string();
                    if d.smart >= 1 {
                        want.push(' ');
                    }
                    st.outcome("followup");
                    // the follow-up key set here overlaps the chord keys only when the first chord contains c;
                    // in that case c alone is not a follow-up of a released chord any differently: same expectation
                    if text != want && !found.iter().any(|f| f.signature == "followup") {
                        found.push(mk_violation("C20", "followup".into(), format!("{} [{}]: follow-up chord should leave {want:?}, visible text {text:?}", d.tag(), crate::sim::hist_to_string(&h)), "structured", &cfg, &h, json!({"file": file})));
                    }
                }
            }
        }
    }
}

fn run_generic(d: &Dict, depth: usize, st: &mut Stats, found: &mut Vec<Violation>) {
    let cfg = d.cfg();
    let file = d.file();
    let mut alpha = vec![];
    for k in ["a", "b", "c", "lsft"] {
        alpha.push(Ev::P(kc(k)));
        alpha.push(Ev::R(kc(k)));
    }
    alpha.push(Ev::T(1));
    let sets: Vec<Vec<u16>> = d.entries.iter().map(|(k, _)| KEYSETS[*k].chars().map(|c| kc(&c.to_string())).collect()).collect();
    let lsft = kc("lsft");
    for_each_history(&alpha, depth, Consistency::Physical, &[], |h, _fn, down| {
        if found.len() >= 3 {
            return;
        }
        let mut full = h.to_vec();
        full.push(Ev::T(2));
        for e in completion(down, false) {
            full.push(e);
            full.push(Ev::T(1));
        }
        full.push(Ev::T(20));
        st.evaluations += 1;
        match run_with_file(&cfg, &file, &full) {
            Err(m) => found.push(mk_violation("C20", format!("generic::{}", panic_signature(&m)), m, "generic", &cfg, &full, json!({"file": file}))),
            Ok((_, tr)) => {
                st.validated += 1;
                st.transitions += full.len() as u64;
                let (text, shift_end) = text_of(&tr);
                let held = crate::sim::os_down_set(&tr);
                // passthrough expectation when no entry's key set is ever down together
                let mut dn: Vec<u16> = vec![];
                let mut ever = false;
                let mut typed = String::new();
                for e in &full {
                    if let Ev::P(k) = e {
                        if *k != lsft {
                            let c = if *k == kc("a") { 'a' } else if *k == kc("b") { 'b' } else { 'c' };
                            typed.push(if dn.contains(&lsft) { c.to_ascii_uppercase() } else { c });
                        }
                    }
                    apply_phys(&mut dn, *e);
                    if sets.iter().any(|s| s.iter().all(|k| dn.contains(k))) {
                        ever = true;
                    }
                }
                st.outcome(if ever { "generic/chord-possible" } else { "generic/passthrough" });
                let v = if !held.is_empty() {
                    Some(("generic::stuck".to_string(), format!("held after release: {held:?}")))
                } else if shift_end {
                    Some(("generic::shift-stuck".to_string(), "shift still down at the OS after everything was released".to_string()))
                } else if !ever && text != typed {
                    Some(("generic::passthrough-changed".to_string(), format!("no chord was ever formed; typed {typed:?} but visible text is {text:?}")))
                } else {
                    None
                };
                if let Some((sig, what)) = v {
                    if !found.iter().any(|f| f.signature == sig) {
                        found.push(mk_violation("C20", sig, format!("{} [{}]: {what}", d.tag(), crate::sim::hist_to_string(&full)), "generic", &cfg, &full, json!({"file": file})));
                    }
                }
            }
        }
    });
}

fn run_job(tier: Tier, idx: usize, st: &mut Stats) {
    let j = &jobs(tier)[idx];
    let cfg = j.dict.cfg();
    let mut files = crate::sim::Files::default();
    files.insert("file".to_string(), j.dict.file());
    if let Err(e) = Sim::new_with_files(&cfg, files) {
        st.configs_rejected += 1;
        st.outcome("rejected");
        if idx % 50 == 0 {
            st.sample(json!({"rejected": e.chars().take(200).collect::<String>(), "dict": j.dict.tag()}));
        }
        return;
    }
    st.configs_accepted += 1;
    let mut found = vec![];
    match j.generic {
        None => run_structured(&j.dict, st, &mut found),
        Some(d) => run_generic(&j.dict, d, st, &mut found),
    }
    if idx % 41 == 0 {
        st.sample(json!({"dict": j.dict.tag(), "file": j.dict.file(), "family": if j.generic.is_some() { "generic" } else { "structured" }}));
    }
    for mut v in found {
        if let Some(e) = v.detail.get_mut("extra") {
            e["job"] = json!(idx);
            e["tier"] = json!(tier.name());
        }
        st.violation(v);
    }
}

fn replay(d: &serde_json::Value) -> Vec<Violation> {
    let idx = d.get("extra").and_then(|e| e.get("job")).and_then(|x| x.as_u64()).unwrap_or(0) as usize;
    let tier = Tier::parse(d.get("extra").and_then(|e| e.get("tier")).and_then(|x| x.as_str()).unwrap_or("quick"));
    let mut st = Stats::default();
    run_job(tier, idx.min(n_jobs(tier) - 1), &mut st);
    st.violations
}
