//! C16 — configuration abstractions are transparent: indirection never changes behaviour.
use super::c03::{lex_nodes, Node};
use super::*;
use crate::cfggen::*;
use crate::explore::*;
use crate::par::{PropDef, Stats, Tier};
use crate::sim::{kc, Ev, Files, Sim};
use serde_json::json;
use std::sync::OnceLock;

pub fn def() -> PropDef {
    PropDef {
        id: "C16",
        level: "translation_validation",
        n_jobs,
        job_level,
        run_job,
        replay,
        rule: "programs: every action-menu config (U1), the curated feature-interaction configs (U3) and every parsing seed of C03 with <= 60 nodes that the parser accepts. Rewrites applied at EVERY applicable site (bound 1) and, for programs <= 60 nodes (thorough: 90), every PAIR of sites with the second rewrite applied to the result of the first (bound 2): (R1) an action in a deflayer -> @alias with the defalias placed before first use; (R2) an atom or list argument inside an action -> $var (defvar at the top); (R2s) a list argument in which an atom occurs twice -> $var of a defvar whose value refers twice to another variable, directly or through two further variables (a diamond of references); (R3) any action or argument -> (t! tN) of a zero-parameter deftemplate; (R3p) -> (t! tN <node>) of the identity template (deftemplate tN (p) $p), which nests expansions inside template arguments at bound 2; (R4) a top-level form -> expansion of a template whose body is (if-equal x x <form>); (R5) a top-level form -> an included file; (R6) a top-level form -> (platform (linux) <form>); (R7) a deflayer -> the equivalent deflayermap listing every defsrc key; (R7w) the same plus a `_` wildcard entry, written first or last, which with every key listed explicitly applies to none. Oracle: accepted iff accepted; equal renderings of every layer cell of every mapped key and virtual key, key_outputs, mapped keys, overrides, sequence trie entries (hook H4), virtual key names, layer names, zippy dictionary and switch timing; plus lock-step behaviour: both configs run on ALL physically consistent histories of D steps over press/release of a,b,c + tick 1 + tick 6, outputs identical (every rewrite at bound 1 on the generated universes; a deterministic 1-in-25 subset at bound 2 in quick, 1-in-5 in thorough; D=3 quick, 4 thorough). programs = rewritten programs compared; disagreements_checked = comparisons made.",
        assumptions: &["rewrites are applied only where config.adoc documents them as available (actions and their arguments inside deflayer; top-level forms other than defcfg/defsrc for include)", "behavioural comparison is bounded by D; table equality is complete"],
        required_level,
        min_outcomes: 3,
    }
}

// ------------------------------------------------------------------------------------------------
// rendering of a parsed config

fn render(cfg: &str, files: &Files) -> Result<String, String> {
    let f = files.clone();
    let r = crate::sim::guarded(|| kanata_parser::cfg::new_from_str(cfg, f));
    match r {
        Err(p) => Err(format!("PANIC {p}")),
        Ok(Err(e)) => Err(format!("REJECTED {}", format!("{e:?}").lines().find(|l| l.contains("help:")).unwrap_or("").trim())),
        Ok(Ok(c)) => {
            use std::fmt::Write;
            let mut s = String::new();
            let mut mk: Vec<u16> = c.mapped_keys.iter().map(|o| o.as_u16()).collect();
            mk.sort();
            let _ = write!(s, "mapped={mk:?};");
            let l = c.layout.b();
            for (li, layer) in l.layers.iter().enumerate() {
                for k in &mk {
                    let _ = write!(s, "L{li}[{k}]={:?};", layer[0][*k as usize]);
                }
                let mut fk: Vec<usize> = c.fake_keys.values().copied().collect();
                fk.sort();
                for i in fk {
                    let _ = write!(s, "L{li}v[{i}]={:?};", layer[1][i]);
                }
            }
            let mut names: Vec<(&String, &usize)> = c.fake_keys.iter().collect();
            names.sort();
            let _ = write!(s, "vk={names:?};");
            for (li, ko) in c.key_outputs.iter().enumerate() {
                let mut e: Vec<(u16, Vec<u16>)> = ko.iter().map(|(k, v)| (k.as_u16(), v.iter().map(|o| o.as_u16()).collect())).collect();
                e.sort();
                let _ = write!(s, "ko{li}={e:?};");
            }
            let _ = write!(s, "ovr={:?};", c.overrides);
            let mut seqs = c.sequences.verif_entries();
            seqs.sort();
            let _ = write!(s, "seq={seqs:?};");
            let _ = write!(s, "layers={:?};", c.layer_info.iter().map(|l| l.name.clone()).collect::<Vec<_>>());
            let _ = write!(s, "smkt={};", c.switch_max_key_timing);
            let _ = write!(s, "zippy={};", c.zippy.is_some());
            let _ = write!(s, "chv2={};", l.chords_v2.is_some());
            if let Some(cv) = &l.chords_v2 {
                let mut m: Vec<String> = cv.chords().mapping.iter().map(|(k, v)| format!("{k}:{:?}", v.chords)).collect();
                m.sort();
                let _ = write!(s, "chv2m={m:?};");
            }
            let _ = write!(s, "opts=({},{},{},{:?},{},{});", c.options.concurrent_tap_hold, c.options.rapid_event_delay, c.options.delegate_to_first_layer, c.options.sequence_input_mode, c.options.sequence_timeout, c.options.override_release_on_activation);
            Ok(s)
        }
    }
}

// ------------------------------------------------------------------------------------------------
// rewrites

#[derive(Clone, Copy, Debug, PartialEq)]
enum Rw {
    Alias,
    Var,
    /// a list argument in which the same atom occurs twice -> $var of a defvar whose value refers TWICE to
    /// another variable (directly, or through two further variables: a diamond)
    VarShared,
    Template0,
    TemplateId,
    IfEqual,
    Include,
    Platform,
    LayerMap,
    /// deflayermap listing every defsrc key AND a `_` wildcard entry (which then applies to no key)
    LayerMapWild,
}
const RWS: [Rw; 10] = [Rw::Alias, Rw::Var, Rw::VarShared, Rw::Template0, Rw::TemplateId, Rw::IfEqual, Rw::Include, Rw::Platform, Rw::LayerMap, Rw::LayerMapWild];

fn head_of<'a>(t: &'a str, nodes: &[Node], i: usize) -> &'a str {
    // first atom child of list node i
    nodes.iter().enumerate().find(|(_, m)| m.parent == Some(i)).map(|(_, m)| &t[m.start..m.end]).unwrap_or("")
}

fn toplevel_of(nodes: &[Node], mut i: usize) -> usize {
    while let Some(p) = nodes[i].parent {
        i = p;
    }
    i
}

fn child_index(nodes: &[Node], i: usize) -> usize {
    let p = nodes[i].parent;
    nodes[..i].iter().filter(|m| m.parent == p).count()
}

/// Applies rewrite `rw` at node `ni`; `uid` makes generated names unique. None = not applicable.
fn apply(t: &str, files: &Files, nodes: &[Node], ni: usize, rw: Rw, uid: usize) -> Option<(String, Files)> {
    let n = &nodes[ni];
    let me = &t[n.start..n.end];
    let top = toplevel_of(nodes, ni);
    let top_head = if nodes[top].is_list { head_of(t, nodes, top) } else { "" };
    let in_deflayer = top_head == "deflayer" && ni != top;
    let depth_in_top = {
        let mut d = 0;
        let mut i = ni;
        while let Some(p) = nodes[i].parent {
            d += 1;
            i = p;
        }
        d
    };
    let idx_in_parent = child_index(nodes, ni);
    let is_expand_head = |h: &str| matches!(h, "t!" | "template-expand");
    // the name argument of a template expansion is not a value (config.adoc: "template name must be a string")
    if let Some(p) = n.parent {
        if is_expand_head(head_of(t, nodes, p)) && idx_in_parent == 1 {
            return None;
        }
    }
    // arguments of an expansion are passed as text (config.adoc example 5: "defvar is parsed AFTER template
    // expansion"), so when the program uses template conditionals a rewritten argument is compared as text
    if let Some(p) = n.parent {
        if is_expand_head(head_of(t, nodes, p)) && t.contains("(if-") && matches!(rw, Rw::Var | Rw::VarShared | Rw::Template0 | Rw::TemplateId) {
            return None;
        }
    }
    // the layer-name list of a deflayer is not an action
    {
        let mut i = ni;
        while let Some(p) = nodes[i].parent {
            if p == top && top_head == "deflayer" && child_index(nodes, i) == 1 && i != ni {
                return None;
            }
            i = p;
        }
    }
    // an expansion site may stand for several items: it is not "an action" / "a value"
    let me_is_expansion = n.is_list && is_expand_head(head_of(t, nodes, ni));
    let contains_expansion = me.contains("(t! ") || me.contains("(template-expand ");
    let replace = |with: &str, prelude: &str| -> String {
        // prelude goes right before the top-level form that contains the site (i.e. before first use)
        let ts = nodes[top].start;
        format!("{}{}\n{} {} {}", &t[..ts], prelude, &t[ts..n.start], with, &t[n.end..])
    };
    match rw {
        Rw::Alias => {
            // a layer cell (direct child of deflayer, position >= 2)
            if !(in_deflayer && depth_in_top == 1 && idx_in_parent >= 2) || me == "_" || me.starts_with('@') || me_is_expansion {
                return None;
            }
            let name = format!("zz{uid}");
            Some((replace(&format!("@{name}"), &format!("(defalias {name} {me})")), files.clone()))
        }
        Rw::Var => {
            // an argument inside an action: depth >= 2 within deflayer, not the head of its list
            if !(in_deflayer && depth_in_top >= 2 && idx_in_parent >= 1) || me.starts_with('$') || me_is_expansion {
                return None;
            }
            let name = format!("vv{uid}");
            Some((replace(&format!("${name}"), &format!("(defvar {name} {me})")), files.clone()))
        }
        Rw::VarShared => {
            if !(in_deflayer && depth_in_top >= 2 && idx_in_parent >= 1) || !n.is_list || me_is_expansion || contains_expansion {
                return None;
            }
            let kids: Vec<&Node> = nodes.iter().filter(|m| m.parent == Some(ni)).collect();
            let atom_ok = |k: &Node| {
                let a = &t[k.start..k.end];
                !k.is_list && !a.starts_with('$') && !a.starts_with('@') && !a.starts_with('"') && a != "_"
            };
            let mut pair = None;
            'p: for i in 1..kids.len() {
                for j in i + 1..kids.len() {
                    if atom_ok(kids[i]) && atom_ok(kids[j]) && t[kids[i].start..kids[i].end] == t[kids[j].start..kids[j].end] {
                        pair = Some((kids[i], kids[j]));
                        break 'p;
                    }
                }
            }
            let (ki, kj) = pair?;
            let atom = &t[ki.start..ki.end];
            let (r1, r2, mid) = if uid % 2 == 0 {
                (format!("$uu{uid}"), format!("$uu{uid}"), String::new())
            } else {
                (format!("$ua{uid}"), format!("$ub{uid}"), format!(" ua{uid} $uu{uid} ub{uid} $uu{uid}"))
            };
            let inner = format!("{}{}{}{}{}", &t[n.start..ki.start], r1, &t[ki.end..kj.start], r2, &t[kj.end..n.end]);
            Some((replace(&format!("$vv{uid}"), &format!("(defvar uu{uid} {atom}{mid} vv{uid} {inner})")), files.clone()))
        }
        Rw::Template0 | Rw::TemplateId => {
            if !(in_deflayer && ((depth_in_top == 1 && idx_in_parent >= 2) || (depth_in_top >= 2 && idx_in_parent >= 1))) {
                return None;
            }
            let name = format!("tt{uid}");
            if rw == Rw::Template0 {
                Some((replace(&format!("(t! {name})"), &format!("(deftemplate {name} () {me})")), files.clone()))
            } else {
                Some((replace(&format!("(t! {name} {me})"), &format!("(deftemplate {name} (p) $p)")), files.clone()))
            }
        }
        Rw::IfEqual | Rw::Platform | Rw::Include => {
            if ni != top || !n.is_list {
                return None;
            }
            if matches!(top_head, "defcfg" | "defsrc" | "include" | "deftemplate" | "template-expand" | "t!" | "platform") {
                return None;
            }
            let name = format!("ww{uid}");
            if rw == Rw::IfEqual && (contains_expansion || me.contains("(concat ")) {
                // documented: deftemplate order matters and concat inside a deftemplate is evaluated at
                // expansion time (before defvar substitution) - wrapping such a form is not neutral
                return None;
            }
            match rw {
                Rw::IfEqual => Some((format!("{}(deftemplate {name} () (if-equal qq qq {me}))\n(t! {name}){}", &t[..n.start], &t[n.end..]), files.clone())),
                Rw::Platform => Some((format!("{}(platform (linux) {me}){}", &t[..n.start], &t[n.end..]), files.clone())),
                _ => {
                    if t.contains("(include") {
                        return None; // included files cannot be nested; keep one include level
                    }
                    let mut f = files.clone();
                    f.insert(format!("{name}.kbd"), format!(";; moved\n{me}\n"));
                    Some((format!("{}(include {name}.kbd){}", &t[..n.start], &t[n.end..]), f))
                }
            }
        }
        Rw::LayerMap | Rw::LayerMapWild => {
            if ni != top || top_head != "deflayer" {
                return None;
            }
            // defsrc keys in order
            let src = nodes.iter().enumerate().find(|(i, m)| m.parent.is_none() && m.is_list && head_of(t, nodes, *i) == "defsrc")?.0;
            let src_keys: Vec<&str> = nodes.iter().filter(|m| m.parent == Some(src)).skip(1).map(|m| &t[m.start..m.end]).collect();
            if nodes.iter().any(|m| m.parent == Some(src) && m.is_list) || contains_expansion {
                return None;
            }
            let kids: Vec<&Node> = nodes.iter().filter(|m| m.parent == Some(ni)).collect();
            if kids.len() != src_keys.len() + 2 || src_keys.is_empty() {
                return None;
            }
            let lname = &t[kids[1].start..kids[1].end];
            if kids[1].is_list {
                return None; // layer options (icons) — not rewritten
            }
            let mut s = format!("(deflayermap ({lname})");
            // the wildcard `_` stands for the defsrc keys that are NOT listed explicitly: with every key
            // listed (an explicit `_` action included) it applies to none, wherever it is written
            if rw == Rw::LayerMapWild && uid % 2 == 0 {
                s += " _ XX";
            }
            for (k, a) in src_keys.iter().zip(kids[2..].iter()) {
                s += &format!(" {k} {}", &t[a.start..a.end]);
            }
            if rw == Rw::LayerMapWild && uid % 2 == 1 {
                s += " _ XX";
            }
            s += ")";
            Some((format!("{}{}{}", &t[..n.start], s, &t[n.end..]), files.clone()))
        }
    }
}

// ------------------------------------------------------------------------------------------------
// programs

struct Prog {
    tag: String,
    text: String,
    files: Files,
    generated: bool, // from the generated universes (keys a b c): behavioural lock-step applies
}

fn programs() -> &'static Vec<Prog> {
    static P: OnceLock<Vec<Prog>> = OnceLock::new();
    P.get_or_init(|| {
        let mut v = vec![];
        let o = CfgOpts::default();
        for m in action_menu(5) {
            if m.text.contains("-delay") || m.tag.starts_with("lrld") {
                continue;
            }
            v.push(Prog { tag: format!("U1/{}", m.tag), text: cfg3(&m.text, "b", "c", &o), files: Files::default(), generated: true });
        }
        for i in 0..super::c01::CURATED.len() {
            v.push(Prog { tag: format!("U3/{}", super::c01::CURATED[i].0), text: super::c01::curated_cfg(i), files: Files::default(), generated: true });
        }
        // programs with list arguments that repeat an atom (sites of the shared-variable rewrite)
        for (i, a) in ["(multi (tap-hold 5 5 x lsft) lctl)", "(tap-dance 6 ((macro y y) (tap-hold 4 4 z lalt) x))", "(fork (multi x x) (macro 3 3 y) (lsft lsft))", "(switch ((and a a)) (multi y y) break () (macro z 2 2 z) break)"].iter().enumerate() {
            v.push(Prog { tag: format!("U4/shared-values-{i}"), text: cfg3(a, "b", "c", &o), files: Files::default(), generated: true });
        }
        let sample_files = super::c03::sample_files();
        for s in super::c03::seeds() {
            let n = lex_nodes(&s.text).len();
            if n <= 60 && n >= 4 {
                v.push(Prog { tag: format!("seed/{}", s.name), text: s.text.clone(), files: sample_files.clone(), generated: false });
            }
        }
        v
    })
}

fn n_jobs(_t: Tier) -> usize {
    programs().len()
}
fn job_level(_t: Tier, _i: usize) -> u32 {
    0
}
fn required_level(_t: Tier) -> u32 {
    0
}

fn behaviour(cfg: &str, files: &Files, depth: usize) -> Result<Vec<u64>, String> {
    let mut alpha = vec![];
    for k in ["a", "b", "c"] {
        alpha.push(Ev::P(kc(k)));
        alpha.push(Ev::R(kc(k)));
    }
    alpha.push(Ev::T(1));
    alpha.push(Ev::T(6));
    let mut out = vec![];
    let mut err: Option<String> = None;
    for_each_history(&alpha, depth, Consistency::Physical, &[], |h, _f, _d| {
        if err.is_some() {
            return;
        }
        match Sim::new_with_files(cfg, files.clone()) {
            Err(e) => err = Some(e),
            Ok(mut s) => {
                let mut full = h.to_vec();
                full.push(Ev::T(12));
                match s.run(&full) {
                    Err(e) => out.push(crate::sim::hash_str(&format!("ERR {e}"))),
                    Ok(()) => out.push(crate::sim::hash_str(&s.raw_outputs().join("|"))),
                }
            }
        }
    });
    match err {
        Some(e) => Err(e),
        None => Ok(out),
    }
}

fn compare(p: &Prog, base_render: &Result<String, String>, rewritten: &str, files: &Files, what: &str, do_behaviour: bool, depth: usize, st: &mut Stats, base_beh: &mut Option<Vec<u64>>) -> Option<(String, String)> {
    crate::par::announce_value(&json!({"cfg": rewritten, "history": what}));
    st.configs_accepted += 1;
    st.validated += 1;
    let r = render(rewritten, files);
    match (base_render, &r) {
        (Ok(a), Ok(b)) => {
            if a != b {
                // first differing field
                let fa: Vec<&str> = a.split(';').collect();
                let fb: Vec<&str> = b.split(';').collect();
                let d = fa.iter().zip(fb.iter()).find(|(x, y)| x != y).map(|(x, y)| format!("{}  vs  {}", &x[..x.len().min(160)], &y[..y.len().min(160)])).unwrap_or_else(|| format!("lengths {} vs {}", fa.len(), fb.len()));
                return Some(("tables-differ".into(), format!("{what}: parsed tables differ: {d}")));
            }
        }
        (Ok(_), Err(e)) => {
            return Some((if e.starts_with("PANIC") { "rewritten-panics".into() } else { "rewritten-rejected".into() }, format!("{what}: the original is accepted but the rewritten config is not: {}", e.chars().take(300).collect::<String>())));
        }
        (Err(_), Ok(_)) => return Some(("rewritten-accepted-original-rejected".into(), format!("{what}: the original is rejected but the rewritten config is accepted"))),
        (Err(_), Err(_)) => return None,
    }
    st.outcome("tables-equal");
    if do_behaviour && p.generated {
        if base_beh.is_none() {
            *base_beh = behaviour(&p.text, &p.files, depth).ok();
        }
        if let Some(bb) = base_beh {
            match behaviour(rewritten, files, depth) {
                Err(e) => return Some(("behaviour-error".into(), format!("{what}: {e}"))),
                Ok(rb) => {
                    st.evaluations += (rb.len() * 2) as u64;
                    st.outcome("behaviour-equal");
                    if *bb != rb {
                        let i = bb.iter().zip(rb.iter()).position(|(x, y)| x != y).unwrap_or(0);
                        return Some(("behaviour-differs".into(), format!("{what}: outputs differ on history #{i} of the depth-{depth} enumeration")));
                    }
                }
            }
        }
    }
    None
}

fn run_job(tier: Tier, idx: usize, st: &mut Stats) {
    let p = &programs()[idx];
    let base = render(&p.text, &p.files);
    st.evaluations += 1;
    if base.is_err() {
        st.configs_rejected += 1;
        st.outcome("original-rejected");
        // rejected originals: still check "accepted iff accepted" on bound-1 rewrites
    }
    let nodes = lex_nodes(&p.text);
    let pair_limit = if tier == Tier::Quick { 60 } else { 90 };
    let beh_mod = if tier == Tier::Quick { 25 } else { 5 };
    let depth = if tier == Tier::Quick { 3 } else { 4 };
    let mut found: Vec<Violation> = vec![];
    let mut base_beh: Option<Vec<u64>> = None;
    let mut n1 = 0usize;
    let mut n2 = 0usize;
    let push = |sig: String, what: String, text: &str, files: &Files, found: &mut Vec<Violation>| {
        if found.len() < 4 && !found.iter().any(|f| f.signature == sig) {
            found.push(Violation {
                property: "C16".into(),
                signature: sig,
                what,
                detail: json!({"kind": "rewrite", "cfg": text, "original": p.text, "files": files.iter().map(|(k, v)| (k.clone(), json!(v))).collect::<serde_json::Map<_, _>>(), "job": idx}),
            });
        }
    };
    for ni in 0..nodes.len() {
        for (ri, rw) in RWS.iter().enumerate() {
            let Some((t1, f1)) = apply(&p.text, &p.files, &nodes, ni, *rw, 1) else { continue };
            n1 += 1;
            st.count(&format!("bound1/{:?}", rw), 1);
            st.evaluations += 1;
            let what = format!("{} {:?}@node{}", p.tag, rw, ni);
            if let Some((sig, w)) = compare(p, &base, &t1, &f1, &what, true, depth, st, &mut base_beh) {
                push(format!("{:?}::{sig}", rw), w, &t1, &f1, &mut found);
                continue;
            }
            if base.is_err() || nodes.len() > pair_limit {
                continue;
            }
            // bound 2: every site of the rewritten text, every rewrite
            let nodes1 = lex_nodes(&t1);
            for nj in 0..nodes1.len() {
                for (rj, rw2) in RWS.iter().enumerate() {
                    let Some((t2, f2)) = apply(&t1, &f1, &nodes1, nj, *rw2, 2) else { continue };
                    n2 += 1;
                    st.evaluations += 1;
                    let what = format!("{} {:?}@node{} then {:?}@node{}", p.tag, rw, ni, rw2, nj);
                    let beh = (ni * 31 + nj * 7 + ri + rj) % beh_mod == 0;
                    st.count(&format!("bound2/{:?}+{:?}", rw, rw2), 1);
                    if let Some((sig, w)) = compare(p, &base, &t2, &f2, &what, beh, depth, st, &mut base_beh) {
                        push(format!("{:?}+{:?}::{sig}", rw, rw2), w, &t2, &f2, &mut found);
                    }
                }
            }
        }
    }
    if idx % 9 == 0 {
        st.sample(json!({"program": p.tag, "nodes": nodes.len(), "rewritten_programs_bound1": n1, "bound2": n2}));
    }
    for v in found {
        st.violation(v);
    }
}

fn replay(d: &serde_json::Value) -> Vec<Violation> {
    let idx = d.get("job").and_then(|x| x.as_u64()).unwrap_or(0) as usize;
    let mut st = Stats::default();
    run_job(Tier::Quick, idx.min(programs().len() - 1), &mut st);
    st.violations
}
