//! C10 — switch and fork conditions evaluate exactly as written.
//! Programs (boolean expression trees, case lists, timing thresholds, fork trigger sets) are compiled
//! by the REAL parser and evaluated by the REAL layout under all truth assignments; the oracle is the
//! recursive reading of the s-expression from config.adoc.
use super::*;
use crate::par::{PropDef, Stats, Tier};
use crate::sim::{kc, Ev, Out, Sim};
use serde_json::json;
use std::sync::OnceLock;

pub fn def() -> PropDef {
    PropDef {
        id: "C10",
        level: "translation_validation",
        n_jobs,
        job_level,
        run_job,
        replay,
        rule: "programs = ALL boolean expression trees with <= N nodes, depth <= 3, operators {and,or,not} of arity 1..3 over leaves {L0,L1,L2} (quick N=6, thorough N=7) + all single-path chains of depth 4..7 with every operator in every position, each in 2 leaf realisations (active key name; (input real k)); written as `(switch ((EXPR)) x break () y break)`, compiled by the real parser (60 programs per config) and executed through the full pipeline under ALL 8 truth assignments (leaf keys physically held or not). Case lists: all lists of <= 3 cases over conditions {(), (b), (c), ((not b))} x {break, fallthrough} under all 4 assignments, plus 8-long fallthrough chains. Leaf semantics: key-history / input-history recency 1..8, layer / base-layer (incl. ALL press/release histories of <= 5 events over three layer-while-held keys: the active layer is the most recently activated one still held), key-timing with recency 1..8 after 1..12 typed keys (the 8-slot history wraps), key-timing lt/gt for thresholds {0,1,5,255,256,262,263,300,511,2303,2304,2431,5000} scanned over every gap in [T-140, T+4]: decision boundary monotone and within the documented resolution (exact <= 255, rounded down to 8 ms < 2304, to 128 ms above). fork: all trigger sets over {lsft, b} x all active sets. Oracle: and = all, or = any, not = none (config.adoc); cases top to bottom, break stops, fallthrough continues. programs = program texts accepted by the parser; disagreements_checked = (program, assignment) evaluations compared.",
        assumptions: &[
            "expression shapes beyond N nodes / depth 3 (other than single-path chains to the parser's maximum depth) are not enumerated",
            "truth assignments are realised through physically held keys mapped to themselves",
        ],
        required_level,
        min_outcomes: 2,
    }
}

#[derive(Clone, Debug)]
pub enum Expr {
    Leaf(u8),
    Op(u8, Vec<Expr>), // 0 and, 1 or, 2 not
}

impl Expr {
    fn nodes(&self) -> usize {
        match self {
            Expr::Leaf(_) => 1,
            Expr::Op(_, v) => 1 + v.iter().map(|e| e.nodes()).sum::<usize>(),
        }
    }
    pub fn eval(&self, a: [bool; 3]) -> bool {
        match self {
            Expr::Leaf(i) => a[*i as usize],
            Expr::Op(0, v) => v.iter().all(|e| e.eval(a)),
            Expr::Op(1, v) => v.iter().any(|e| e.eval(a)),
            Expr::Op(_, v) => !v.iter().any(|e| e.eval(a)),
        }
    }
    pub fn text(&self, leaf: &dyn Fn(u8) -> String) -> String {
        match self {
            Expr::Leaf(i) => leaf(*i),
            Expr::Op(o, v) => format!("({} {})", ["and", "or", "not"][*o as usize], v.iter().map(|e| e.text(leaf)).collect::<Vec<_>>().join(" ")),
        }
    }
}

/// All trees with exactly `n` nodes and depth <= d (depth of a leaf = 0).
fn trees(n: usize, d: usize) -> Vec<Expr> {
    let mut out = vec![];
    if n == 1 {
        for l in 0..3 {
            out.push(Expr::Leaf(l));
        }
        return out;
    }
    if d == 0 {
        return out;
    }
    // operator with k children (1..=3) whose node counts sum to n-1
    for op in 0..3u8 {
        for k in 1..=3usize {
            for split in compositions(n - 1, k) {
                let mut partial: Vec<Vec<Expr>> = vec![vec![]];
                for part in &split {
                    let sub = trees(*part, d - 1);
                    let mut next = vec![];
                    for p in &partial {
                        for s in &sub {
                            let mut q = p.clone();
                            q.push(s.clone());
                            next.push(q);
                        }
                    }
                    partial = next;
                }
                for children in partial {
                    out.push(Expr::Op(op, children));
                }
            }
        }
    }
    out
}

fn compositions(n: usize, k: usize) -> Vec<Vec<usize>> {
    if k == 1 {
        return if n >= 1 { vec![vec![n]] } else { vec![] };
    }
    let mut out = vec![];
    for first in 1..n {
        for mut rest in compositions(n - first, k - 1) {
            let mut v = vec![first];
            v.append(&mut rest);
            out.push(v);
        }
    }
    out
}

/// single-path chains: op_1(op_2(...op_k(L0, L1)...), L2) for all operator choices, k = depth
fn chains(depth: usize) -> Vec<Expr> {
    let mut out = vec![];
    let n = 3usize.pow(depth as u32);
    for code in 0..n {
        let mut c = code;
        let mut e = Expr::Op((c % 3) as u8, vec![Expr::Leaf(0), Expr::Leaf(1)]);
        c /= 3;
        for lvl in 1..depth {
            let op = (c % 3) as u8;
            c /= 3;
            // alternate the position of the nested operand so that both "nested first" and "nested last" occur
            e = if lvl % 2 == 0 { Expr::Op(op, vec![e, Expr::Leaf(2)]) } else { Expr::Op(op, vec![Expr::Leaf(2), e]) };
        }
        out.push(e);
    }
    out
}

fn programs(tier: Tier) -> &'static Vec<Expr> {
    static Q: OnceLock<Vec<Expr>> = OnceLock::new();
    static T: OnceLock<Vec<Expr>> = OnceLock::new();
    let (cell, nmax) = match tier {
        Tier::Quick => (&Q, 6),
        Tier::Thorough => (&T, 7),
    };
    cell.get_or_init(|| {
        let mut v = vec![];
        for n in 1..=nmax {
            v.extend(trees(n, 3));
        }
        for d in 4..=7 {
            v.extend(chains(d));
        }
        debug_assert!(v.iter().all(|e| e.nodes() >= 1));
        v
    })
}

const BATCH: usize = 60;
// physical keys that carry the switch actions (never b, c, d, x, y)
const SW_KEYS: &[&str] = &[
    "a", "e", "f", "g", "h", "i", "j", "k", "l", "m", "n", "o", "p", "q", "r", "s", "t", "u", "v", "w", "z", "1", "2", "3", "4", "5", "6", "7", "8", "9", "0", "f1", "f2", "f3",
    "f4", "f5", "f6", "f7", "f8", "f9", "f10", "f11", "f12", "grv", "tab", "caps", "ret", "spc", "bspc", "esc", "ins", "del", "home", "end", "pgup", "pgdn", "up", "down", "left",
    "rght", "min", "eql", "lbrc", "rbrc",
];

#[derive(Clone)]
enum Job {
    Bool { from: usize, to: usize, realisation: u8 },
    Cases,
    Leaves,
    Timing { threshold: u16, lt: bool },
    Fork,
}

fn jobs(tier: Tier) -> &'static Vec<Job> {
    static Q: OnceLock<Vec<Job>> = OnceLock::new();
    static T: OnceLock<Vec<Job>> = OnceLock::new();
    let cell = match tier {
        Tier::Quick => &Q,
        Tier::Thorough => &T,
    };
    cell.get_or_init(|| {
        let mut v = vec![Job::Cases, Job::Leaves, Job::Fork];
        for t in [0u16, 1, 5, 255, 256, 262, 263, 300, 511, 2303, 2304, 2431, 5000] {
            v.push(Job::Timing { threshold: t, lt: true });
            v.push(Job::Timing { threshold: t, lt: false });
        }
        let n = programs(tier).len();
        for r in 0..2u8 {
            let mut from = 0;
            while from < n {
                let to = (from + BATCH).min(n);
                v.push(Job::Bool { from, to, realisation: r });
                from = to;
            }
        }
        v
    })
}

fn n_jobs(t: Tier) -> usize {
    jobs(t).len()
}
fn job_level(_t: Tier, _i: usize) -> u32 {
    0
}
fn required_level(_t: Tier) -> u32 {
    0
}

fn leaf_text(realisation: u8) -> impl Fn(u8) -> String {
    move |i| {
        let k = ["b", "c", "d"][i as usize];
        if realisation == 0 {
            k.to_string()
        } else {
            format!("(input real {k})")
        }
    }
}

fn bool_cfg(exprs: &[Expr], realisation: u8) -> String {
    let lt = leaf_text(realisation);
    let mut s = String::from("(defcfg)\n(defsrc b c d");
    for k in &SW_KEYS[..exprs.len()] {
        s += &format!(" {k}");
    }
    s += ")\n(deflayer base b c d";
    for e in exprs {
        s += &format!("\n  (switch (({})) x break () y break)", e.text(&lt).trim_start_matches('(').trim_end_matches(')'));
    }
    s += ")\n";
    s
}

/// NB: the outermost list of a switch logic check is itself an implicit `or`; to test EXPR exactly we
/// wrap it: ((EXPR)) would double the parens for operators, so we emit the operator list as the single
/// item of the check. For a bare leaf the check is `(leaf)`.
fn check_text(e: &Expr, lt: &dyn Fn(u8) -> String) -> String {
    format!("({})", e.text(lt))
}

fn bool_cfg2(exprs: &[Expr], realisation: u8) -> String {
    let lt = leaf_text(realisation);
    let mut s = String::from("(defcfg)\n(defsrc b c d");
    for k in &SW_KEYS[..exprs.len()] {
        s += &format!(" {k}");
    }
    s += ")\n(deflayer base b c d";
    for e in exprs {
        s += &format!("\n  (switch {} x break () y break)", check_text(e, &lt));
    }
    s += ")\n";
    s
}

/// Runs one assignment on a fresh instance: hold the true leaves, then tap every switch key.
/// Returns for each switch key the list of output key names pressed in its window.
fn run_assignment(cfg: &str, nkeys: usize, a: [bool; 3], st: &mut Stats) -> Result<Vec<Vec<String>>, String> {
    let mut s = Sim::new(cfg)?;
    st.evaluations += 1;
    for (i, k) in ["b", "c", "d"].iter().enumerate() {
        if a[i] {
            s.step(Ev::P(kc(k)))?;
            s.step(Ev::T(1))?;
        }
    }
    s.step(Ev::T(3))?;
    let mut res = vec![];
    for k in &SW_KEYS[..nkeys] {
        let n0 = s.n_out();
        s.step(Ev::P(kc(k)))?;
        s.step(Ev::T(12))?;
        s.step(Ev::R(kc(k)))?;
        s.step(Ev::T(4))?;
        let tr = crate::sim::parse_outputs(&s.raw_outputs()[n0..]);
        res.push(tr.iter().filter_map(|(_, o)| if let Out::Down(k) = o { Some(k.clone()) } else { None }).collect());
    }
    Ok(res)
}

fn assignments3() -> Vec<[bool; 3]> {
    (0..8).map(|m| [m & 1 != 0, m & 2 != 0, m & 4 != 0]).collect()
}

fn shape(e: &Expr) -> String {
    // leaf-insensitive, operator-sensitive shape: the defect class discriminator
    match e {
        Expr::Leaf(_) => "_".into(),
        Expr::Op(o, v) => format!("({} {})", ["and", "or", "not"][*o as usize], v.iter().map(shape).collect::<Vec<_>>().join(" ")),
    }
}

fn run_bool(from: usize, to: usize, realisation: u8, tier: Tier, st: &mut Stats) {
    let exprs = &programs(tier)[from..to];
    let cfg = bool_cfg2(exprs, realisation);
    if let Err(e) = Sim::new(&cfg) {
        // find the offending program: parse one by one
        for ex in exprs {
            let c1 = bool_cfg2(std::slice::from_ref(ex), realisation);
            if let Err(e1) = Sim::new(&c1) {
                st.configs_rejected += 1;
                st.violation(Violation {
                    property: "C10".into(),
                    signature: format!("rejected::{}", shape(ex)),
                    what: format!("parser rejects a well-formed expression: {}", e1.chars().take(300).collect::<String>()),
                    detail: json!({"kind": "bool", "cfg": c1, "expr": ex.text(&leaf_text(realisation)), "realisation": realisation}),
                });
                return;
            }
        }
        st.violation(Violation { property: "C10".into(), signature: "rejected::batch".into(), what: e.chars().take(300).collect(), detail: json!({"kind": "bool", "cfg": cfg}) });
        return;
    }
    st.configs_accepted += exprs.len() as u64;
    for a in assignments3() {
        crate::par::announce(&cfg, &[]);
        match run_assignment(&cfg, exprs.len(), a, st) {
            Err(m) => {
                st.violation(Violation { property: "C10".into(), signature: panic_signature(&m), what: m, detail: json!({"kind": "bool", "cfg": cfg, "assignment": format!("{a:?}")}) });
                return;
            }
            Ok(res) => {
                for (ex, got) in exprs.iter().zip(res.iter()) {
                    st.validated += 1;
                    let want = ex.eval(a);
                    let want_keys: Vec<String> = vec![if want { "X".into() } else { "Y".into() }];
                    st.outcome(if want { "case-true" } else { "case-false" });
                    if *got != want_keys {
                        let text = ex.text(&leaf_text(realisation));
                        let c1 = bool_cfg2(std::slice::from_ref(ex), realisation);
                        st.violation(Violation {
                            property: "C10".into(),
                            signature: format!("bool::{}", shape(ex)),
                            what: format!("{text} with (b,c,d held)={a:?}: written condition is {want}, but the switch pressed {got:?} (expected {want_keys:?})"),
                            detail: json!({"kind": "bool1", "cfg": c1, "expr": text, "assignment": [a[0], a[1], a[2]], "want": want}),
                        });
                    }
                }
            }
        }
    }
    if from % (BATCH * 37) == 0 {
        st.sample(json!({"programs": format!("{from}..{to}"), "realisation": realisation, "first": exprs[0].text(&leaf_text(realisation)), "last": exprs[exprs.len() - 1].text(&leaf_text(realisation))}));
    }
}

fn replay_bool1(d: &serde_json::Value) -> Vec<Violation> {
    let cfg = d.get("cfg").and_then(|x| x.as_str()).unwrap_or("");
    let a: Vec<bool> = d.get("assignment").and_then(|x| x.as_array()).map(|v| v.iter().map(|b| b.as_bool().unwrap_or(false)).collect()).unwrap_or_default();
    let want = d.get("want").and_then(|x| x.as_bool()).unwrap_or(false);
    if a.len() != 3 {
        return vec![];
    }
    let mut st = Stats::default();
    match run_assignment(cfg, 1, [a[0], a[1], a[2]], &mut st) {
        Ok(res) => {
            let want_keys: Vec<String> = vec![if want { "X".into() } else { "Y".into() }];
            if res[0] != want_keys {
                let expr = d.get("expr").and_then(|x| x.as_str()).unwrap_or("");
                vec![Violation { property: "C10".into(), signature: format!("bool::{}", shape_of_text(expr)), what: format!("{expr} {a:?}: got {:?}, expected {want_keys:?}", res[0]), detail: d.clone() }]
            } else {
                vec![]
            }
        }
        Err(m) => vec![Violation { property: "C10".into(), signature: panic_signature(&m), what: m, detail: d.clone() }],
    }
}

fn shape_of_text(t: &str) -> String {
    // replace leaves by _ : tokens that are not ( ) and or not
    let mut out = String::new();
    let mut tok = String::new();
    let mut depth_input = 0;
    let flush = |tok: &mut String, out: &mut String| {
        if !tok.is_empty() {
            if ["and", "or", "not"].contains(&tok.as_str()) {
                out.push_str(tok);
            } else {
                out.push('_');
            }
            tok.clear();
        }
    };
    let chars: Vec<char> = t.chars().collect();
    let mut i = 0;
    while i < chars.len() {
        let c = chars[i];
        if t[t.char_indices().nth(i).map(|x| x.0).unwrap_or(0)..].starts_with("(input real ") {
            // a leaf realised as a list
            let rest: String = chars[i..].iter().collect();
            let end = rest.find(')').unwrap_or(rest.len() - 1);
            out.push('_');
            i += end + 1;
            continue;
        }
        match c {
            '(' | ')' => {
                flush(&mut tok, &mut out);
                out.push(c);
                let _ = &mut depth_input;
            }
            ' ' => {
                flush(&mut tok, &mut out);
                out.push(' ');
            }
            _ => tok.push(c),
        }
        i += 1;
    }
    flush(&mut tok, &mut out);
    out
}

// ------------------------------------------------------------------------------------------
// case lists

fn run_cases(st: &mut Stats) {
    let conds = ["()", "(b)", "(c)", "((not b))"];
    let cond_eval = |ci: usize, b: bool, c: bool| match ci {
        0 => true,
        1 => b,
        2 => c,
        _ => !b,
    };
    let acts = ["x", "y", "z", "w", "1", "2", "3", "4"];
    let act_names = ["X", "Y", "Z", "W", "Kb1", "Kb2", "Kb3", "Kb4"];
    // all lists of <= 3 cases
    let mut lists: Vec<Vec<(usize, bool)>> = vec![];
    for len in 1..=3usize {
        let mut idx = vec![0usize; len];
        loop {
            lists.push(idx.iter().map(|v| (v / 2, v % 2 == 0)).collect()); // (cond, is_break)
            let mut k = 0;
            while k < len {
                idx[k] += 1;
                if idx[k] < 8 {
                    break;
                }
                idx[k] = 0;
                k += 1;
            }
            if k == len {
                break;
            }
        }
    }
    // fallthrough chains of length 4..8 (the action queue holds 8)
    for len in 4..=8usize {
        lists.push((0..len).map(|i| (if i % 2 == 0 { 0 } else { 3 }, false)).collect());
        lists.push((0..len).map(|i| (0, i == len - 1)).collect());
    }
    for chunk in lists.chunks(BATCH) {
        let mut s = String::from("(defcfg)\n(defsrc b c d");
        for k in &SW_KEYS[..chunk.len()] {
            s += &format!(" {k}");
        }
        s += ")\n(deflayer base b c d";
        for l in chunk {
            s += "\n  (switch";
            for (i, (ci, brk)) in l.iter().enumerate() {
                s += &format!(" {} {} {}", conds[*ci], acts[i], if *brk { "break" } else { "fallthrough" });
            }
            s += ")";
        }
        s += ")\n";
        if let Err(e) = Sim::new(&s) {
            st.violation(Violation { property: "C10".into(), signature: "cases::rejected".into(), what: e.chars().take(300).collect(), detail: json!({"kind": "cases", "cfg": s}) });
            continue;
        }
        st.configs_accepted += chunk.len() as u64;
        for m in 0..4 {
            let (b, c) = (m & 1 != 0, m & 2 != 0);
            match run_assignment(&s, chunk.len(), [b, c, false], st) {
                Err(msg) => {
                    st.violation(Violation { property: "C10".into(), signature: panic_signature(&msg), what: msg, detail: json!({"kind": "cases", "cfg": s}) });
                    break;
                }
                Ok(res) => {
                    for (l, got) in chunk.iter().zip(res.iter()) {
                        st.validated += 1;
                        let mut want: Vec<String> = vec![];
                        for (i, (ci, brk)) in l.iter().enumerate() {
                            if cond_eval(*ci, b, c) {
                                want.push(act_names[i].to_string());
                                if *brk {
                                    break;
                                }
                            }
                        }
                        st.outcome(&format!("cases-fired-{}", want.len().min(3)));
                        if *got != want {
                            let desc: Vec<String> = l.iter().map(|(ci, brk)| format!("{} {}", conds[*ci], if *brk { "break" } else { "fallthrough" })).collect();
                            st.violation(Violation {
                                property: "C10".into(),
                                signature: format!("cases::len{}::want{}::got{}", l.len(), want.len(), got.len()),
                                what: format!("case list [{}] with b={b} c={c}: expected actions {want:?} in order, observed {got:?}", desc.join(" | ")),
                                detail: json!({"kind": "cases", "cfg": s}),
                            });
                        }
                    }
                }
            }
        }
    }
    st.sample(json!({"family": "case lists", "lists": lists.len()}));
}

// ------------------------------------------------------------------------------------------
// leaf semantics other than active keys

fn run_leaves(st: &mut Stats) {
    // key-history / input-history with recency r: type keys k1..k8 (distinct), then the switch key.
    let typed = ["b", "c", "d", "e", "f", "g", "h", "i"];
    let typed_names = ["B", "C", "D", "E", "F", "G", "H", "I"];
    for r in 1..=8usize {
        for which in 0..8usize {
            // expectation: key-history K r true iff the r-th most recent OUTPUT key press is K.
            // After typing b..i then pressing the switch key `a` (which outputs nothing before the
            // decision), the most recent key is i (recency 1), then h, ...
            let cfg = format!(
                "(defcfg)\n(defsrc a b c d e f g h i)\n(deflayer base (switch ((key-history {} {})) x break () y break) b c d e f g h i)\n",
                typed[which], r
            );
            let cfg2 = format!(
                "(defcfg)\n(defsrc a b c d e f g h i)\n(deflayer base (switch ((input-history real {} {})) x break () y break) b c d e f g h i)\n",
                typed[which], r
            );
            for (kind, cfg) in [("key-history", &cfg), ("input-history", &cfg2)] {
                let mut s = match Sim::new(cfg) {
                    Ok(s) => s,
                    Err(e) => {
                        st.violation(Violation { property: "C10".into(), signature: format!("{kind}::rejected"), what: e.chars().take(200).collect(), detail: json!({"kind": "leaf", "cfg": cfg}) });
                        continue;
                    }
                };
                st.configs_accepted += 1;
                st.evaluations += 1;
                let mut h = vec![];
                for k in typed {
                    h.push(Ev::P(kc(k)));
                    h.push(Ev::T(2));
                    h.push(Ev::R(kc(k)));
                    h.push(Ev::T(2));
                }
                h.push(Ev::P(kc("a")));
                h.push(Ev::T(4));
                if let Err(m) = s.run(&h) {
                    st.violation(Violation { property: "C10".into(), signature: panic_signature(&m), what: m, detail: json!({"kind": "leaf", "cfg": cfg}) });
                    continue;
                }
                let tr = s.trace();
                let last = tr.iter().rev().find_map(|(_, o)| if let Out::Down(k) = o { Some(k.clone()) } else { None }).unwrap_or_default();
                // key-history: recency 1 = most recent key pressed = I; recency r = typed[8 - r]
                // input-history: recency 1 = the input activating switch itself (a); recency r = typed[9 - r]
                let want = if kind == "key-history" { which == 8 - r } else { r >= 2 && which == 9 - r };
                st.validated += 1;
                st.outcome(if want { "leaf-true" } else { "leaf-false" });
                let want_key = if want { "X" } else { "Y" };
                if last != want_key {
                    st.violation(Violation {
                        property: "C10".into(),
                        signature: format!("{kind}::recency{r}"),
                        what: format!("({kind} {} {r}) after typing {typed_names:?} then the switch key: expected {want_key}, observed {last}", typed[which]),
                        detail: json!({"kind": "leaf", "cfg": cfg, "history": crate::sim::hist_to_string(&h)}),
                    });
                }
            }
        }
    }
    // layer / base-layer
    // under every transparent-resolution / delegate setting (the layer stack then has a different shape; the
    // base layer is the one chosen by the last layer-switch in all of them)
    for defcfg in ["(defcfg)", "(defcfg transparent-key-resolution to-base-layer)", "(defcfg delegate-to-first-layer yes)", "(defcfg transparent-key-resolution to-base-layer delegate-to-first-layer yes)", "(defcfg transparent-key-resolution layer-stack delegate-to-first-layer yes)"] {
    let cfg_s = format!("{defcfg}\n(defsrc a b c d)\n(deflayer base (switch ((layer nav)) x break ((layer base)) y break () z break) (layer-while-held nav) (layer-switch nav) (layer-switch base))\n(deflayer nav (switch ((base-layer nav)) x break ((base-layer base)) y break () z break) _ _ (layer-switch base))\n");
    let cfg = cfg_s.as_str();
    for (hist, want) in [
        (vec![Ev::P(kc("a")), Ev::T(3)], "Y"),                                                                       // base active
        (vec![Ev::P(kc("b")), Ev::T(2), Ev::P(kc("a")), Ev::T(3)], "Y"),                                             // nav held: a on nav asks base-layer: base -> y
        (vec![Ev::P(kc("c")), Ev::T(2), Ev::R(kc("c")), Ev::T(2), Ev::P(kc("a")), Ev::T(3)], "X"),                   // switched to nav: base-layer nav -> x
        (vec![Ev::P(kc("c")), Ev::T(2), Ev::R(kc("c")), Ev::T(2), Ev::P(kc("d")), Ev::T(2), Ev::R(kc("d")), Ev::T(2), Ev::P(kc("a")), Ev::T(3)], "Y"),
    ] {
        match crate::sim::run_fresh(cfg, &hist) {
            Err(m) => st.violation(Violation { property: "C10".into(), signature: format!("layer::{}", panic_signature(&m)), what: m, detail: json!({"kind": "leaf", "cfg": cfg}) }),
            Ok((_, tr)) => {
                st.evaluations += 1;
                st.validated += 1;
                let last = tr.iter().rev().find_map(|(_, o)| if let Out::Down(k) = o { Some(k.clone()) } else { None }).unwrap_or_default();
                if last != want {
                    st.violation(Violation {
                        property: "C10".into(),
                        signature: format!("layer::{defcfg}::{}", crate::sim::hist_to_string(&hist)),
                        what: format!("layer/base-layer check after [{}]: expected {want}, observed {last}", crate::sim::hist_to_string(&hist)),
                        detail: json!({"kind": "leaf", "cfg": cfg, "history": crate::sim::hist_to_string(&hist)}),
                    });
                }
            }
        }
    }
    }
    // (layer X) with several held layers: "the active layer" is the most recently activated layer
    // that is still held (config.adoc: layer / layer-while-held). b holds l1, c holds l2, d holds l3 on
    // every layer; a carries the switch on every layer. ALL physically consistent press/release
    // histories of <= 5 events over b, c, d, then a is pressed.
    {
        let sw = "(switch ((layer l3)) w break ((layer l2)) x break ((layer l1)) y break ((layer base)) z break () v break)";
        let row = format!("{sw} (layer-while-held l1) (layer-while-held l2) (layer-while-held l3)");
        let cfg = format!("(defcfg)\n(defsrc a b c d)\n(deflayer base {row})\n(deflayer l1 {row})\n(deflayer l2 {row})\n(deflayer l3 {row})\n");
        let alpha: Vec<Ev> = ["b", "c", "d"].iter().flat_map(|k| [Ev::P(kc(k)), Ev::R(kc(k))]).collect();
        let mut n = 0u64;
        let mut bad: Option<Violation> = None;
        for depth in 0..=5usize {
            crate::explore::for_each_history(&alpha, depth, crate::explore::Consistency::Physical, &[], |h, _f, _d| {
                if bad.is_some() || h.len() != depth {
                    return;
                }
                // model: activation-ordered stack of held layers
                let mut stack: Vec<usize> = vec![];
                let mut hist = vec![];
                for e in h {
                    match e {
                        Ev::P(c) => {
                            let l = ["b", "c", "d"].iter().position(|k| kc(k) == *c).unwrap() + 1;
                            stack.push(l);
                        }
                        Ev::R(c) => {
                            let l = ["b", "c", "d"].iter().position(|k| kc(k) == *c).unwrap() + 1;
                            stack.retain(|x| *x != l);
                        }
                        _ => {}
                    }
                    hist.push(*e);
                    hist.push(Ev::T(2));
                }
                hist.push(Ev::P(kc("a")));
                hist.push(Ev::T(3));
                let want = ["Z", "Y", "X", "W"][stack.last().copied().unwrap_or(0)];
                crate::par::announce(&cfg, &hist);
                n += 1;
                match crate::sim::run_fresh(&cfg, &hist) {
                    Err(m) => bad = Some(Violation { property: "C10".into(), signature: format!("layer-stack::{}", panic_signature(&m)), what: m, detail: json!({"kind": "leaf", "cfg": cfg, "history": crate::sim::hist_to_string(&hist)}) }),
                    Ok((_, tr)) => {
                        let last = tr.iter().rev().find_map(|(_, o)| if let Out::Down(k) = o { Some(k.clone()) } else { None }).unwrap_or_default();
                        if last != want {
                            bad = Some(Violation {
                                property: "C10".into(),
                                signature: "layer-stack::wrong-active-layer".into(),
                                what: format!("(layer X) with held layers {stack:?} (activation order) after [{}]: expected {want}, observed {last}", crate::sim::hist_to_string(&hist)),
                                detail: json!({"kind": "leaf", "cfg": cfg, "history": crate::sim::hist_to_string(&hist)}),
                            });
                        }
                    }
                }
            });
        }
        st.evaluations += n;
        st.validated += n;
        st.count("layer_condition_held_stack_histories", n);
        if let Some(v) = bad {
            st.violation(v);
        }
    }
    // key-timing with recency n = 1..8 after K = 1..12 typed keys (the 8-slot history wraps at 9): the n-th
    // most recent key was typed W + (n-1)*G ms ago; thresholds are placed >= 10 ms clear of every such age
    {
        const G: u32 = 40; // spacing of the typed keys
        let thr = 100u32;
        for cmp in ["lt", "gt"] {
            for n in 1..=8u32 {
                let cfg = format!("(defcfg)\n(defsrc a b)\n(deflayer base (switch ((key-timing {n} {cmp} {thr})) x break () y break) b)\n");
                for k in 1..=12u32 {
                    for w in [5u32, 150] {
                        // fewer keys typed than the recency asks for: there is no such key press, so neither
                        // "pressed more recently than" nor "pressed later than" holds
                        let missing = n > k;
                        let mut h = vec![Ev::T(2)];
                        for i in 0..k {
                            h.push(Ev::P(kc("b")));
                            h.push(Ev::T(2));
                            h.push(Ev::R(kc("b")));
                            if i + 1 < k {
                                h.push(Ev::T(G - 2));
                            }
                        }
                        h.push(Ev::T(w));
                        h.push(Ev::P(kc("a")));
                        h.push(Ev::T(3));
                        // age of the n-th most recent key press when a is pressed (+-3 of processing latency)
                        let age = w + 2 + (n - 1) * G;
                        if !missing && (age as i64 - thr as i64).abs() < 10 {
                            continue;
                        }
                        let truth = !missing && if cmp == "lt" { age < thr } else { age > thr };
                        let want = if truth { "X" } else { "Y" };
                        crate::par::announce(&cfg, &h);
                        st.evaluations += 1;
                        st.validated += 1;
                        match crate::sim::run_fresh(&cfg, &h) {
                            Err(m) => {
                                st.violation(Violation { property: "C10".into(), signature: format!("key-timing-recency::{}", panic_signature(&m)), what: m, detail: json!({"kind": "leaf", "cfg": cfg, "history": crate::sim::hist_to_string(&h)}) });
                                return;
                            }
                            Ok((_, tr)) => {
                                let last = tr.iter().rev().find_map(|(_, o)| if let Out::Down(k) = o { Some(k.clone()) } else { None }).unwrap_or_default();
                                if last != want {
                                    st.violation(Violation {
                                        property: "C10".into(),
                                        signature: "key-timing-recency::wrong-case".into(),
                                        what: format!("(key-timing {n} {cmp} {thr}) after {k} typed keys {G} ms apart and {w} ms of waiting: the {n}-th most recent key is {age} ms old, so the condition is {truth}: expected {want}, observed {last}"),
                                        detail: json!({"kind": "leaf", "cfg": cfg, "history": crate::sim::hist_to_string(&h)}),
                                    });
                                    return;
                                }
                            }
                        }
                    }
                }
            }
        }
        st.count("key_timing_recency_cases", 1);
    }
    st.sample(json!({"family": "leaf semantics", "key-history/input-history": "recency 1..8 x 8 keys", "layer/base-layer": 4}));
}

/// Resolution documented in switch.rs / config.adoc for key-timing thresholds.
fn resolution(t: u16) -> u16 {
    if t <= 255 {
        1
    } else if t <= 2303 {
        8
    } else {
        128
    }
}

fn timing_observed(cfg: &str, gap: u32, st: &mut Stats) -> Result<String, String> {
    // press b (recency 1 key), wait `gap` ticks, press the switch key
    let mut s = Sim::new(cfg)?;
    st.evaluations += 1;
    s.run(&[Ev::P(kc("b")), Ev::T(1), Ev::R(kc("b")), Ev::Tn(gap), Ev::P(kc("a")), Ev::T(3)])?;
    let tr = s.trace();
    Ok(tr.iter().rev().find_map(|(_, o)| if let Out::Down(k) = o { Some(k.clone()) } else { None }).unwrap_or_default())
}

fn run_timing(threshold: u16, lt: bool, st: &mut Stats) {
    let cmp = if lt { "lt" } else { "gt" };
    let cfg = format!("(defcfg)\n(defsrc a b)\n(deflayer base (switch ((key-timing 1 {cmp} {threshold})) x break () y break) b)\n");
    if let Err(e) = Sim::new(&cfg) {
        st.violation(Violation { property: "C10".into(), signature: "timing::rejected".into(), what: e.chars().take(200).collect(), detail: json!({"kind": "timing", "cfg": cfg}) });
        return;
    }
    st.configs_accepted += 1;
    // Calibration of the constant offset between "gap" and ticks_since_occurrence, taken on an
    // exact threshold of the same comparator in the same run (threshold 20).
    let cal_cfg = format!("(defcfg)\n(defsrc a b)\n(deflayer base (switch ((key-timing 1 {cmp} 20)) x break () y break) b)\n");
    let mut cal_boundary: Option<i64> = None;
    for g in 0..40u32 {
        match timing_observed(&cal_cfg, g, st) {
            Ok(k) => {
                let is_true = k == "X";
                // lt: true for small gaps; gt: true for large gaps. boundary = last gap with lt-true / first gap with gt-true minus 1
                if lt && is_true {
                    cal_boundary = Some(g as i64);
                }
                if !lt && !is_true {
                    cal_boundary = Some(g as i64);
                }
            }
            Err(m) => {
                st.violation(Violation { property: "C10".into(), signature: panic_signature(&m), what: m, detail: json!({"kind": "timing", "cfg": cal_cfg}) });
                return;
            }
        }
    }
    let Some(cal) = cal_boundary else {
        st.violation(Violation { property: "C10".into(), signature: "timing::calibration".into(), what: "key-timing with threshold 20 never changes its value for gaps 0..40".into(), detail: json!({"kind": "timing", "cfg": cal_cfg}) });
        return;
    };
    let off = 20 - cal; // gap + off = effective elapsed compared against the threshold
    let lo = (threshold as i64 - 140 - off).max(0) as u32;
    let hi = (threshold as i64 + 4 - off).max(4) as u32;
    let mut vals = vec![];
    for g in lo..=hi {
        match timing_observed(&cfg, g, st) {
            Ok(k) => vals.push((g, k == "X")),
            Err(m) => {
                st.violation(Violation { property: "C10".into(), signature: panic_signature(&m), what: m, detail: json!({"kind": "timing", "cfg": cfg}) });
                return;
            }
        }
        st.validated += 1;
    }
    // monotone: lt = true..true false..false ; gt = false..false true..true
    let as_lt: Vec<(u32, bool)> = vals.iter().map(|(g, v)| (*g, if lt { *v } else { !*v })).collect();
    let boundary = as_lt.iter().filter(|(_, v)| *v).map(|(g, _)| *g as i64).max();
    let monotone = match boundary {
        Some(b) => as_lt.iter().all(|(g, v)| (*g as i64 <= b) == *v),
        None => true,
    };
    let res = resolution(threshold) as i64;
    let eff = boundary.map(|b| b + off); // effective threshold implemented
    let ok = monotone
        && match eff {
            Some(e) => e <= threshold as i64 && e > threshold as i64 - res,
            // never true in the scanned range: legitimate only if even gap 0 already exceeds the threshold
            // (the press of the switch key is dequeued one tick after the release before it, so the
            // smallest observable elapsed time is 2 ticks)
            None => lo == 0 && (threshold as i64) < 2.max(off + 1),
        };
    st.outcome(&format!("timing-res{res}"));
    if !ok {
        st.violation(Violation {
            property: "C10".into(),
            signature: format!("timing::{cmp}::res{res}"),
            what: format!(
                "(key-timing 1 {cmp} {threshold}): decision boundary at effective elapsed {eff:?} ticks (monotone={monotone}); documented: threshold rounded down to a multiple of {res} ms, i.e. within ({}, {threshold}]",
                threshold as i64 - res
            ),
            detail: json!({"kind": "timing", "cfg": cfg, "threshold": threshold, "lt": lt}),
        });
    }
    st.sample(json!({"family": "key-timing", "threshold": threshold, "cmp": cmp, "gaps_scanned": vals.len(), "effective_boundary": eff}));
}

fn run_fork(st: &mut Stats) {
    // trigger sets over {lsft, b}; active sets over {lsft(c key), b}
    for tset in [vec!["lsft"], vec!["b"], vec!["lsft", "b"], vec![]] {
        let cfg = format!("(defcfg)\n(defsrc a b c)\n(deflayer base (fork x y ({})) b lsft)\n", tset.join(" "));
        if Sim::new(&cfg).is_err() {
            st.configs_rejected += 1;
            continue;
        }
        st.configs_accepted += 1;
        for m in 0..4 {
            let (sb, ss) = (m & 1 != 0, m & 2 != 0);
            let mut h = vec![];
            if sb {
                h.push(Ev::P(kc("b")));
                h.push(Ev::T(2));
            }
            if ss {
                h.push(Ev::P(kc("c")));
                h.push(Ev::T(2));
            }
            h.push(Ev::P(kc("a")));
            h.push(Ev::T(3));
            match crate::sim::run_fresh(&cfg, &h) {
                Err(msg) => st.violation(Violation { property: "C10".into(), signature: panic_signature(&msg), what: msg, detail: json!({"kind": "fork", "cfg": cfg}) }),
                Ok((_, tr)) => {
                    st.evaluations += 1;
                    st.validated += 1;
                    let last = tr.iter().rev().find_map(|(_, o)| if let Out::Down(k) = o { Some(k.clone()) } else { None }).unwrap_or_default();
                    let right = (sb && tset.contains(&"b")) || (ss && tset.contains(&"lsft"));
                    let want = if right { "Y" } else { "X" };
                    st.outcome(if right { "fork-right" } else { "fork-left" });
                    if last != want {
                        st.violation(Violation {
                            property: "C10".into(),
                            signature: format!("fork::{}", tset.join("+")),
                            what: format!("(fork x y ({})) with b={sb} lsft={ss}: expected {want}, observed {last}", tset.join(" ")),
                            detail: json!({"kind": "fork", "cfg": cfg, "history": crate::sim::hist_to_string(&h)}),
                        });
                    }
                }
            }
        }
    }
}

fn run_job(tier: Tier, idx: usize, st: &mut Stats) {
    let _ = bool_cfg;
    match &jobs(tier)[idx] {
        Job::Bool { from, to, realisation } => run_bool(*from, *to, *realisation, tier, st),
        Job::Cases => run_cases(st),
        Job::Leaves => run_leaves(st),
        Job::Timing { threshold, lt } => run_timing(*threshold, *lt, st),
        Job::Fork => run_fork(st),
    }
}

fn replay(d: &serde_json::Value) -> Vec<Violation> {
    match d.get("kind").and_then(|x| x.as_str()).unwrap_or("") {
        "bool1" => replay_bool1(d),
        "timing" => {
            let mut st = Stats::default();
            let t = d.get("threshold").and_then(|x| x.as_u64()).unwrap_or(0) as u16;
            let lt = d.get("lt").and_then(|x| x.as_bool()).unwrap_or(true);
            run_timing(t, lt, &mut st);
            st.violations
        }
        "cases" => {
            let mut st = Stats::default();
            run_cases(&mut st);
            st.violations
        }
        "leaf" => {
            let mut st = Stats::default();
            run_leaves(&mut st);
            st.violations
        }
        "fork" => {
            let mut st = Stats::default();
            run_fork(&mut st);
            st.violations
        }
        _ => vec![],
    }
}
