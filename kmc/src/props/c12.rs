//! C12 — sequences: accepted sets are unambiguous; a typed sequence fires its key once.
use super::*;
use crate::par::{PropDef, Stats, Tier};
use crate::sim::{kc, Ev, Out, Sim};
use serde_json::json;
use std::sync::OnceLock;

pub fn def() -> PropDef {
    PropDef {
        id: "C12",
        level: "model_checking",
        n_jobs,
        job_level,
        run_job,
        replay,
        rule: "family T (tables): every ordered pair of sequences from the item grammar {a,b,c,S-a,S-b,S-(a b),O-(a b),O-(b a),O-(a b c),O-(b c)}^(1..2) plus plain sequences of length 3 (and, in thorough, ordered triples over the length-1/2 plain+chord subset): the real parser's accept/reject is compared with prefix-freeness computed over the documented token expansion (every permutation of every O- group), and on acceptance the trie entries (hook H4) must equal the expected expansion with the right virtual-key coordinate. family A (typing): 6 sequence sets x 3 input modes x 2 leader forms (sldr with defcfg mode / (sequence T mode) overriding a different defcfg mode); ALL unit histories of up to D units (6 for sldr / 5 for the sequence action in both tiers; thorough uses the larger gap set) over {leader tap, tap a, tap b, tap c, tap d(probe, in no sequence)} x gap-after in {T-3, T+4} (thorough adds 2), T=8; reference model of sequence mode (buffer of typed keys, exact match fires once, no-match/timeout cancels, mode-specific OS presses) predicts the exact order of OS presses; where the typed keys fail strictly but a proper suffix is still a prefix of a defined sequence (the implementation backtracks) either the strict-cancel or the suffix-backtracking prediction is accepted (class window). family B (chords in sequences): configs with S-(..) and O-(..) sequences; ALL physically consistent press/release histories of depth 6 (thorough 7) over {a,b,c,lsft} after a leader tap; strict token model for S- configs (histories where only a relaxed reading could match are skipped, class relaxed); for O- configs safety (at most one activation per leader, activation only if all keys of that sequence were pressed) on all histories plus canonical typings (every press order and release order of the group) must activate exactly once and non-overlapping typing must not. Modifier sides: C-, S- and M- sequences typed with the left and with the right variant of the modifier activate exactly once. Always: nothing left pressed at the OS.",
        assumptions: &["timeout boundary (interval within 2 ms of the timeout) not exercised: gaps are chosen clear of it", "releases of keys whose press was hidden are ignored (documented BUG(sequences) in handle_keystate_changes; the property constrains presses)", "a leader pressed while a sequence is in progress restarts the attempt in hidden-suppressed mode and is ignored in the other modes (src/kanata/mod.rs SequenceLeader); the property does not constrain this, the model follows the code"],
        required_level,
        min_outcomes: 4,
    }
}

const T: u32 = 8;
const KEYS: [&str; 4] = ["a", "b", "c", "d"];
const VKOUT: [&str; 3] = ["X", "Y", "Z"];

#[derive(Clone, Copy, PartialEq, Debug)]
enum Mode {
    HS,
    HDT,
    VB,
}
impl Mode {
    fn name(&self) -> &'static str {
        match self {
            Mode::HS => "hidden-suppressed",
            Mode::HDT => "hidden-delay-type",
            Mode::VB => "visible-backspaced",
        }
    }
}
const MODES: [Mode; 3] = [Mode::HS, Mode::HDT, Mode::VB];

/// sequence sets for family A: (vk index, keys as indices into KEYS)
const SETS: &[(&str, &[(usize, &[usize])])] = &[
    ("ab|ac", &[(0, &[0, 1]), (1, &[0, 2])]),
    ("a|ba", &[(0, &[0]), (1, &[1, 0])]),
    ("abc|bc", &[(0, &[0, 1, 2]), (1, &[1, 2])]),
    ("aa|b", &[(0, &[0, 0]), (1, &[1])]),
    ("abab|c", &[(0, &[0, 1, 0, 1]), (1, &[2])]),
    ("ab|ba|cc", &[(0, &[0, 1]), (1, &[1, 0]), (2, &[2, 2])]),
];

fn cfg_a(set: usize, mode: Mode, leader_form: usize) -> String {
    let seqs: String = SETS[set].1.iter().map(|(v, ks)| format!(" v{} ({})", v + 1, ks.iter().map(|k| KEYS[*k]).collect::<Vec<_>>().join(" "))).collect();
    let (defcfg_mode, defcfg_t, leader) = if leader_form == 0 {
        (mode, T, "sldr".to_string())
    } else {
        // the action overrides a different global mode and timeout
        let other = if mode == Mode::HS { Mode::VB } else { Mode::HS };
        (other, 3, format!("(sequence {T} {})", mode.name()))
    };
    format!("(defcfg sequence-timeout {defcfg_t} sequence-input-mode {})\n(defsrc l a b c d lsft)\n(deflayer base {leader} a b c d lsft)\n(defvirtualkeys v1 x v2 y v3 z)\n(defseq{seqs})\n", defcfg_mode.name())
}

// ------------------------------------------------------------------------------------------------
// family A

#[derive(Clone, Copy, PartialEq, Debug)]
enum Unit {
    L,
    K(usize),
}

fn key_name(k: usize) -> String {
    KEYS[k].to_uppercase()
}

/// Reference model: expected order of OS presses. `window`: on strict failure continue with the
/// longest proper suffix that is still a prefix of (or equal to) a defined sequence.
fn model_a(set: usize, mode: Mode, units: &[(Unit, u32)], window: bool) -> Option<Vec<String>> {
    let seqs = SETS[set].1;
    let is_prefix = |b: &[usize]| seqs.iter().any(|(_, s)| s.len() > b.len() && s[..b.len()] == *b);
    let exact = |b: &[usize]| seqs.iter().find(|(_, s)| **s == *b).map(|(v, _)| *v);
    let mut out: Vec<String> = vec![];
    let mut active = false;
    let mut buf: Vec<usize> = vec![]; // matching buffer
    let mut raw: Vec<usize> = vec![]; // every key typed in this attempt (hidden-delay-type replay)
    let mut since_reset: u32 = 0; // ms since the timeout was last (re)armed
    let mut prev_gap: Option<u32> = None;
    for (u, gap) in units {
        if let Some(g) = prev_gap {
            since_reset += g + 1;
        }
        // did the timeout expire before this unit?
        if active {
            if since_reset + 1 >= T && since_reset <= T + 2 {
                return None; // within processing latency of the deadline: don't-care
            }
            if since_reset > T {
                active = false;
                if mode == Mode::HDT {
                    for k in &raw {
                        out.push(key_name(*k));
                    }
                }
            }
        }
        match u {
            Unit::L => {
                // src/kanata/mod.rs SequenceLeader: enter when inactive; while active only the
                // hidden-suppressed mode restarts ("retriggering"), the other modes ignore the leader
                if !active || mode == Mode::HS {
                    active = true;
                    buf.clear();
                    raw.clear();
                    since_reset = 0;
                }
            }
            Unit::K(k) => {
                if !active {
                    out.push(key_name(*k));
                } else {
                    since_reset = 0;
                    raw.push(*k);
                    buf.push(*k);
                    if mode == Mode::VB {
                        out.push(key_name(*k));
                    }
                    let mut fired = exact(&buf);
                    let mut ok = fired.is_some() || is_prefix(&buf);
                    if !ok && window {
                        while !buf.is_empty() {
                            buf.remove(0);
                            if buf.is_empty() {
                                break;
                            }
                            fired = exact(&buf);
                            if fired.is_some() || is_prefix(&buf) {
                                ok = true;
                                break;
                            }
                        }
                    }
                    if let Some(v) = fired {
                        if mode == Mode::VB {
                            for _ in 0..buf.len() {
                                out.push("BSpace".into());
                            }
                        }
                        out.push(VKOUT[v].into());
                        active = false;
                    } else if !ok {
                        active = false;
                        if mode == Mode::HDT {
                            for k in &raw {
                                out.push(key_name(*k));
                            }
                        }
                    }
                }
            }
        }
        prev_gap = Some(*gap);
    }
    // the history ends with a settle longer than the timeout
    if active && mode == Mode::HDT {
        for k in &raw {
            out.push(key_name(*k));
        }
    }
    Some(out)
}

fn units_to_hist(units: &[(Unit, u32)]) -> Vec<Ev> {
    let mut h = vec![];
    for (u, g) in units {
        let code = match u {
            Unit::L => kc("l"),
            Unit::K(k) => kc(KEYS[*k]),
        };
        h.push(Ev::P(code));
        h.push(Ev::T(1));
        h.push(Ev::R(code));
        h.push(Ev::T(*g));
    }
    h.push(Ev::T(T + 8));
    h
}

fn downs(tr: &crate::sim::Trace) -> Vec<String> {
    tr.iter().filter_map(|(_, o)| if let Out::Down(k) = o { Some(k.clone()) } else { None }).collect()
}

fn check_a(cfg: &str, set: usize, mode: Mode, units: &[(Unit, u32)], st: &mut Stats) -> Option<Violation> {
    let hist = units_to_hist(units);
    crate::par::announce(cfg, &hist);
    let mut s = match Sim::new(cfg) {
        Ok(s) => s,
        Err(e) => return Some(mk_violation("C12", "typing/config-rejected".into(), e.chars().take(200).collect(), "history", cfg, &hist, json!({}))),
    };
    st.evaluations += 1;
    st.transitions += hist.len() as u64;
    if let Err(e) = s.run(&hist) {
        return Some(mk_violation("C12", format!("typing/{}", panic_signature(&e)), e.chars().take(300).collect(), "history", cfg, &hist, json!({})));
    }
    let tr = s.trace();
    let got = downs(&tr);
    st.distinct_traces.insert(crate::sim::hash_str(&got.join(",")));
    st.validated += 1;
    let (Some(strict), Some(win)) = (model_a(set, mode, units, false), model_a(set, mode, units, true)) else {
        st.outcome("deadline-band-skipped");
        return None;
    };
    let held = crate::sim::os_down_set(&tr);
    let sig_base = format!("typing/{}/{}", SETS[set].0, mode.name());
    if !held.is_empty() {
        return Some(mk_violation("C12", format!("{sig_base}/stuck"), format!("keys left pressed at the OS: {held:?}"), "history", cfg, &hist, json!({})));
    }
    if strict != win {
        st.outcome("window");
        if got == strict || got == win {
            return None;
        }
        return Some(mk_violation("C12", format!("{sig_base}/window-mismatch"), format!("OS presses {got:?}; expected {strict:?} (strict cancel) or {win:?} (suffix backtracking)"), "history", cfg, &hist, json!({})));
    }
    let n_fired = strict.iter().filter(|k| VKOUT.contains(&k.as_str())).count();
    st.outcome(&format!("fired-{}", n_fired.min(3)));
    if got != strict {
        let class = {
            let gf = got.iter().filter(|k| VKOUT.contains(&k.as_str())).count();
            if gf > n_fired {
                "extra-activation"
            } else if gf < n_fired {
                "missing-activation"
            } else {
                "typed-keys-differ"
            }
        };
        return Some(mk_violation("C12", format!("{sig_base}/{class}"), format!("OS presses {got:?}; expected {strict:?}"), "history", cfg, &hist, json!({})));
    }
    None
}

// ------------------------------------------------------------------------------------------------
// family T (tables)

#[derive(Clone, Debug, PartialEq)]
enum Item {
    K(&'static str),
    S(&'static [&'static str]),  // S-(k..) ; one key => S-k
    O(&'static [&'static str]),  // O-(k..)
}
impl Item {
    fn text(&self) -> String {
        match self {
            Item::K(k) => k.to_string(),
            Item::S(ks) if ks.len() == 1 => format!("S-{}", ks[0]),
            Item::S(ks) => format!("S-({})", ks.join(" ")),
            Item::O(ks) => format!("O-({})", ks.join(" ")),
        }
    }
}
const ITEMS: &[Item] = &[
    Item::K("a"),
    Item::K("b"),
    Item::K("c"),
    Item::S(&["a"]),
    Item::S(&["b"]),
    Item::S(&["a", "b"]),
    Item::O(&["a", "b"]),
    Item::O(&["b", "a"]),
    Item::O(&["a", "b", "c"]),
    Item::O(&["b", "c"]),
];

fn perms<TT: Clone>(v: &[TT]) -> Vec<Vec<TT>> {
    if v.len() <= 1 {
        return vec![v.to_vec()];
    }
    let mut out = vec![];
    for i in 0..v.len() {
        let mut rest = v.to_vec();
        let x = rest.remove(i);
        for mut p in perms(&rest) {
            p.insert(0, x.clone());
            out.push(p);
        }
    }
    out
}

/// Documented token expansion, in the trie's u16 encoding (hook H4 exposes the stored keys).
fn expand(seq: &[Item]) -> Vec<Vec<u16>> {
    let mut res: Vec<Vec<u16>> = vec![vec![]];
    for it in seq {
        match it {
            Item::K(k) => {
                for r in res.iter_mut() {
                    r.push(kc(k));
                }
            }
            Item::S(ks) => {
                for r in res.iter_mut() {
                    r.push(kc("lsft") | 0x8000);
                    for k in ks.iter() {
                        r.push(kc(k) | 0x8000);
                    }
                }
            }
            Item::O(ks) => {
                let ps = perms(ks);
                let mut next = vec![];
                for r in &res {
                    for p in &ps {
                        let mut n = r.clone();
                        for k in p {
                            n.push(kc(k) | 0x0400);
                        }
                        n.push(0x0400);
                        next.push(n);
                    }
                }
                res = next;
            }
        }
    }
    res
}

fn table_seqs(tier: Tier) -> &'static Vec<Vec<Item>> {
    static Q: OnceLock<Vec<Vec<Item>>> = OnceLock::new();
    static TH: OnceLock<Vec<Vec<Item>>> = OnceLock::new();
    let build = |_t: Tier| {
        let mut v: Vec<Vec<Item>> = vec![];
        for a in ITEMS {
            v.push(vec![a.clone()]);
        }
        for a in ITEMS {
            for b in ITEMS {
                v.push(vec![a.clone(), b.clone()]);
            }
        }
        for a in 0..3 {
            for b in 0..3 {
                for c in 0..3 {
                    v.push(vec![ITEMS[a].clone(), ITEMS[b].clone(), ITEMS[c].clone()]);
                }
            }
        }
        v
    };
    match tier {
        Tier::Quick => Q.get_or_init(|| build(tier)),
        _ => TH.get_or_init(|| build(tier)),
    }
}

fn seq_text(s: &[Item]) -> String {
    s.iter().map(|i| i.text()).collect::<Vec<_>>().join(" ")
}

fn check_table(seqs: &[&Vec<Item>], st: &mut Stats) -> Option<Violation> {
    let mut cfg = String::from("(defsrc l a b c)\n(deflayer base sldr a b c)\n(defvirtualkeys v1 x v2 y v3 z)\n(defseq");
    for (i, s) in seqs.iter().enumerate() {
        cfg += &format!(" v{} ({})", i + 1, seq_text(s));
    }
    cfg += ")\n";
    crate::par::announce(&cfg, &[]);
    st.evaluations += 1;
    // reference: sequences are inserted in order; a later one conflicts if any of its expansions is a
    // prefix of / equal to / an extension of an earlier stored one (its own expansions are stored
    // one by one too, so two expansions of the same sequence may conflict as well)
    let mut stored: Vec<(Vec<u16>, usize)> = vec![];
    let mut conflict = false;
    'outer: for (i, s) in seqs.iter().enumerate() {
        for e in expand(s) {
            for (o, _) in &stored {
                let n = o.len().min(e.len());
                if o[..n] == e[..n] {
                    conflict = true;
                    break 'outer;
                }
            }
            stored.push((e, i));
        }
    }
    let r = crate::sim::guarded(|| kanata_parser::cfg::new_from_str(&cfg, Default::default()));
    let mk = |sig: &str, what: String| Some(Violation { property: "C12".into(), signature: format!("table/{sig}"), what, detail: json!({"kind": "table", "cfg": cfg, "history": ""}) });
    match r {
        Err(p) => mk("panic", p.chars().take(300).collect()),
        Ok(Err(e)) => {
            st.configs_rejected += 1;
            let msg = format!("{e:?}");
            if !conflict {
                return mk("rejected-unambiguous-set", format!("the set is prefix-free but rejected: {}", msg.lines().find(|l| l.contains("help")).unwrap_or("").trim()));
            }
            st.outcome("table-rejected");
            st.validated += 1;
            None
        }
        Ok(Ok(c)) => {
            st.configs_accepted += 1;
            if conflict {
                return mk("accepted-ambiguous-set", "one sequence (in some permitted ordering of its overlapping groups) is a prefix of another, yet the set was accepted".into());
            }
            let mut got: Vec<(Vec<u16>, (u8, u16))> = c.sequences.verif_entries();
            got.sort();
            let mut exp: Vec<(Vec<u16>, (u8, u16))> = stored.iter().map(|(k, i)| (k.clone(), (1u8, *c.fake_keys.get(&format!("v{}", i + 1)).unwrap_or(&999) as u16))).collect();
            exp.sort();
            st.validated += 1;
            st.outcome("table-accepted");
            if got != exp {
                return mk("trie-differs", format!("stored sequences {got:x?} differ from the documented expansion {exp:x?}"));
            }
            None
        }
    }
}

// ------------------------------------------------------------------------------------------------
// family B (chords in sequences)

const BKEYS: [&str; 4] = ["a", "b", "c", "lsft"];
struct BCfg {
    tag: &'static str,
    seqs: &'static [(usize, &'static [Item])],
    strict: bool,
}
const BCFGS: &[BCfg] = &[
    BCfg { tag: "S-(a b)|S-a S-c", seqs: &[(0, &[Item::S(&["a", "b"])]), (1, &[Item::S(&["a"]), Item::S(&["c"])])], strict: true },
    BCfg { tag: "S-a|b S-c", seqs: &[(0, &[Item::S(&["a"])]), (1, &[Item::K("b"), Item::S(&["c"])])], strict: true },
    BCfg { tag: "O-(a b)|c", seqs: &[(0, &[Item::O(&["a", "b"])]), (1, &[Item::K("c")])], strict: false },
    BCfg { tag: "a O-(b c)", seqs: &[(0, &[Item::K("a"), Item::O(&["b", "c"])])], strict: false },
    BCfg { tag: "O-(a b c)", seqs: &[(0, &[Item::O(&["a", "b", "c"])])], strict: false },
];

fn cfg_b(i: usize, mode: Mode) -> String {
    let seqs: String = BCFGS[i].seqs.iter().map(|(v, s)| format!(" v{} ({})", v + 1, seq_text(s))).collect();
    format!("(defcfg sequence-timeout 30 sequence-input-mode {})\n(defsrc l a b c d lsft)\n(deflayer base sldr a b c d lsft)\n(defvirtualkeys v1 x v2 y v3 z)\n(defseq{seqs})\n", mode.name())
}

fn out_name(k: &str) -> String {
    if k == "lsft" {
        "LShift".into()
    } else {
        k.to_uppercase()
    }
}

/// strict token model for S- configs. None = only a relaxed reading (suffix / unmodded) could match.
fn model_b(i: usize, mode: Mode, evs: &[Ev]) -> Option<Vec<String>> {
    // tokens: (key name, shift)
    let mut seqs: Vec<(usize, Vec<(String, bool)>)> = vec![];
    for (v, s) in BCFGS[i].seqs {
        let mut t = vec![];
        for it in s.iter() {
            match it {
                Item::K(k) => t.push((k.to_string(), false)),
                Item::S(ks) => {
                    t.push(("lsft".to_string(), true));
                    for k in ks.iter() {
                        t.push((k.to_string(), true));
                    }
                }
                Item::O(_) => unreachable!(),
            }
        }
        seqs.push((*v, t));
    }
    let is_prefix = |b: &[(String, bool)]| seqs.iter().any(|(_, s)| s.len() > b.len() && s[..b.len()] == *b);
    let exact = |b: &[(String, bool)]| seqs.iter().find(|(_, s)| **s == *b).map(|(v, _)| *v);
    // loose reading: key identities only, any suffix
    let loose_possible = |b: &[(String, bool)]| {
        for start in 0..b.len() {
            let sfx: Vec<&String> = b[start..].iter().map(|x| &x.0).collect();
            for (_, s) in &seqs {
                // with and without the modifier keys of the definition
                let full: Vec<&String> = s.iter().map(|x| &x.0).collect();
                let nomod: Vec<&String> = s.iter().filter(|x| x.0 != "lsft").map(|x| &x.0).collect();
                let sfx_nomod: Vec<&String> = sfx.iter().filter(|x| x.as_str() != "lsft").cloned().collect();
                for (cand, ss) in [(&full, &sfx), (&nomod, &sfx_nomod), (&nomod, &sfx), (&full, &sfx_nomod)] {
                    if !ss.is_empty() && cand.len() >= ss.len() && cand[..ss.len()] == ss[..] {
                        return true;
                    }
                }
            }
        }
        false
    };
    let mut out = vec![];
    let mut active = true; // the history starts right after a leader tap
    let mut buf: Vec<(String, bool)> = vec![];
    let mut held: Vec<String> = vec![];
    for e in evs {
        match e {
            Ev::P(c) => {
                let k = BKEYS.iter().find(|k| kc(k) == *c).unwrap().to_string();
                held.push(k.clone());
                if !active {
                    out.push(out_name(&k));
                    continue;
                }
                let shift = held.iter().any(|h| h == "lsft");
                buf.push((k.clone(), shift));
                if mode == Mode::VB {
                    out.push(out_name(&k));
                }
                if let Some(v) = exact(&buf) {
                    if mode == Mode::VB {
                        for (k, _) in &buf {
                            if k != "lsft" {
                                out.push("BSpace".into());
                            }
                        }
                    }
                    out.push(VKOUT[v].into());
                    active = false;
                } else if is_prefix(&buf) {
                } else if loose_possible(&buf) {
                    return None;
                } else {
                    active = false;
                    if mode == Mode::HDT {
                        for (k, _) in &buf {
                            out.push(out_name(k));
                        }
                    }
                }
            }
            Ev::R(c) => {
                let k = BKEYS.iter().find(|k| kc(k) == *c).unwrap().to_string();
                held.retain(|h| *h != k);
            }
            _ => {}
        }
    }
    // settle: timeout
    if active && mode == Mode::HDT {
        for (k, _) in &buf {
            out.push(out_name(k));
        }
    }
    Some(out)
}

fn run_b(i: usize, mode: Mode, depth: usize, st: &mut Stats, found: &mut Vec<Violation>) {
    let cfg = cfg_b(i, mode);
    let b = &BCFGS[i];
    let alpha: Vec<Ev> = BKEYS.iter().flat_map(|k| [Ev::P(kc(k)), Ev::R(kc(k))]).collect();
    let sig_base = format!("chords/{}/{}", b.tag, mode.name());
    crate::explore::for_each_history(&alpha, depth, crate::explore::Consistency::Physical, &[], |h, _fnew, down| {
        if found.len() >= 3 {
            return;
        }
        // build: leader tap, then events with gap 2, release the rest, settle past the timeout
        let mut hist = vec![Ev::P(kc("l")), Ev::T(1), Ev::R(kc("l")), Ev::T(2)];
        let mut evs: Vec<Ev> = h.to_vec();
        for k in crate::explore::completion(down, false) {
            evs.push(k);
        }
        for e in &evs {
            hist.push(*e);
            hist.push(Ev::T(2));
        }
        hist.push(Ev::T(40));
        crate::par::announce(&cfg, &hist);
        let mut s = match Sim::new(&cfg) {
            Ok(s) => s,
            Err(e) => {
                found.push(mk_violation("C12", format!("{sig_base}/config-rejected"), e.chars().take(200).collect(), "history", &cfg, &hist, json!({})));
                return;
            }
        };
        st.evaluations += 1;
        st.transitions += hist.len() as u64;
        if let Err(e) = s.run(&hist) {
            found.push(mk_violation("C12", format!("{sig_base}/{}", panic_signature(&e)), e.chars().take(300).collect(), "history", &cfg, &hist, json!({})));
            return;
        }
        let tr = s.trace();
        let got = downs(&tr);
        st.distinct_traces.insert(crate::sim::hash_str(&got.join(",")));
        let held = crate::sim::os_down_set(&tr);
        if !held.is_empty() {
            found.push(mk_violation("C12", format!("{sig_base}/stuck"), format!("keys left pressed at the OS: {held:?}"), "history", &cfg, &hist, json!({})));
            return;
        }
        // safety for every config: at most one activation; activation only if its keys were all pressed
        let fired: Vec<usize> = got.iter().filter_map(|k| VKOUT.iter().position(|v| v == k)).collect();
        if fired.len() > 1 {
            found.push(mk_violation("C12", format!("{sig_base}/extra-activation"), format!("one leader, {} virtual key activations: {got:?}", fired.len()), "history", &cfg, &hist, json!({})));
            return;
        }
        if let Some(v) = fired.first() {
            if let Some((_, s)) = b.seqs.iter().find(|(vv, _)| vv == v) {
                let mut need: Vec<&str> = vec![];
                for it in s.iter() {
                    match it {
                        Item::K(k) => need.push(k),
                        Item::S(ks) => {
                            need.push("lsft");
                            need.extend(ks.iter());
                        }
                        Item::O(ks) => need.extend(ks.iter()),
                    }
                }
                let mut pressed: Vec<u16> = evs.iter().filter_map(|e| if let Ev::P(c) = e { Some(*c) } else { None }).collect();
                for n in need {
                    match pressed.iter().position(|c| *c == kc(n)) {
                        Some(p) => {
                            pressed.remove(p);
                        }
                        None => {
                            found.push(mk_violation("C12", format!("{sig_base}/unjustified-activation"), format!("v{} activated although {n} of its sequence was not pressed: {got:?}", v + 1), "history", &cfg, &hist, json!({})));
                            return;
                        }
                    }
                }
            }
        }
        if b.strict {
            match model_b(i, mode, &evs) {
                None => st.outcome("relaxed"),
                Some(exp) => {
                    st.validated += 1;
                    st.outcome(&format!("chord-fired-{}", exp.iter().filter(|k| VKOUT.contains(&k.as_str())).count()));
                    if got != exp {
                        found.push(mk_violation("C12", format!("{sig_base}/typed-keys-differ"), format!("OS presses {got:?}; expected {exp:?}"), "history", &cfg, &hist, json!({})));
                    }
                }
            }
        } else {
            st.outcome(if fired.is_empty() { "overlap-none" } else { "overlap-fired" });
        }
    });
    // modifier sides: a chorded sequence is typed with the left OR the right variant of its modifier
    if i == 0 {
        let mcfg = format!("(defcfg sequence-timeout 30 sequence-input-mode {})\n(defsrc l a b c lctl rctl lsft rsft lmet rmet lalt)\n(deflayer base sldr a b c lctl rctl lsft rsft lmet rmet lalt)\n(defvirtualkeys v1 x v2 y v3 z)\n(defseq v1 (C-a) v2 (S-b) v3 (M-c))\n", mode.name());
        for (vk, key, mods) in [(0usize, "a", ["lctl", "rctl"]), (1, "b", ["lsft", "rsft"]), (2, "c", ["lmet", "rmet"])] {
            for m in mods {
                let hist = vec![Ev::P(kc("l")), Ev::T(1), Ev::R(kc("l")), Ev::T(2), Ev::P(kc(m)), Ev::T(2), Ev::P(kc(key)), Ev::T(2), Ev::R(kc(key)), Ev::T(2), Ev::R(kc(m)), Ev::T(40)];
                crate::par::announce(&mcfg, &hist);
                let Ok(mut sm) = Sim::new(&mcfg) else {
                    found.push(mk_violation("C12", format!("{sig_base}/mod-sides-rejected"), "config rejected".into(), "history", &mcfg, &hist, json!({})));
                    break;
                };
                st.evaluations += 1;
                if let Err(e) = sm.run(&hist) {
                    found.push(mk_violation("C12", format!("chords/mod-sides/{}", panic_signature(&e)), e.chars().take(300).collect(), "history", &mcfg, &hist, json!({})));
                    continue;
                }
                let got = downs(&sm.trace());
                let n = got.iter().filter(|k| k.as_str() == VKOUT[vk]).count();
                // hidden modes: the typed key itself must not be pressed at the OS
                let typed_leak = mode != Mode::VB && got.iter().any(|k| k.as_str() == key.to_uppercase());
                st.validated += 1;
                st.outcome("mod-sides");
                if (n != 1 || typed_leak) && !found.iter().any(|f| f.signature == format!("chords/mod-sides/{}", mode.name())) {
                    found.push(mk_violation("C12", format!("chords/mod-sides/{}", mode.name()), format!("sequence typed with {m} held, then {key}: v{} activated {n} times, typed key pressed at the OS: {typed_leak}; OS presses {got:?}", vk + 1), "history", &mcfg, &hist, json!({})));
                }
            }
        }
    }
    // canonical typings for O- configs
    if !b.strict {
        for (v, s) in b.seqs.iter() {
            // all press orders x all release orders of each O group; plain keys tapped
            let mut variants: Vec<Vec<Ev>> = vec![vec![]];
            let mut sequential: Vec<Ev> = vec![];
            for it in s.iter() {
                match it {
                    Item::K(k) => {
                        for var in variants.iter_mut() {
                            var.push(Ev::P(kc(k)));
                            var.push(Ev::R(kc(k)));
                        }
                        sequential.push(Ev::P(kc(k)));
                        sequential.push(Ev::R(kc(k)));
                    }
                    Item::O(ks) => {
                        let mut next = vec![];
                        for var in &variants {
                            for po in perms(ks) {
                                for ro in perms(ks) {
                                    let mut n = var.clone();
                                    n.extend(po.iter().map(|k| Ev::P(kc(k))));
                                    n.extend(ro.iter().map(|k| Ev::R(kc(k))));
                                    next.push(n);
                                }
                            }
                        }
                        variants = next;
                        for k in ks.iter() {
                            sequential.push(Ev::P(kc(k)));
                            sequential.push(Ev::R(kc(k)));
                        }
                    }
                    Item::S(_) => unreachable!(),
                }
            }
            let has_o = s.iter().any(|i| matches!(i, Item::O(_)));
            let mut cases: Vec<(Vec<Ev>, bool)> = variants.into_iter().map(|x| (x, true)).collect();
            if has_o {
                cases.push((sequential, false));
            }
            for (evs, must_fire) in cases {
                let mut hist = vec![Ev::P(kc("l")), Ev::T(1), Ev::R(kc("l")), Ev::T(2)];
                for e in &evs {
                    hist.push(*e);
                    hist.push(Ev::T(2));
                }
                hist.push(Ev::T(40));
                crate::par::announce(&cfg, &hist);
                let Ok(mut sm) = Sim::new(&cfg) else { continue };
                st.evaluations += 1;
                if let Err(e) = sm.run(&hist) {
                    found.push(mk_violation("C12", format!("{sig_base}/{}", panic_signature(&e)), e.chars().take(300).collect(), "history", &cfg, &hist, json!({})));
                    continue;
                }
                let got = downs(&sm.trace());
                let n = got.iter().filter(|k| k.as_str() == VKOUT[*v]).count();
                let others = got.iter().filter(|k| VKOUT.contains(&k.as_str()) && k.as_str() != VKOUT[*v]).count();
                st.validated += 1;
                st.outcome(if must_fire { "canonical-overlap" } else { "canonical-sequential" });
                if must_fire && (n != 1 || others != 0) {
                    found.push(mk_violation("C12", format!("{sig_base}/canonical-not-once"), format!("typing the sequence with its overlapping group held together activated v{} {n} times (others {others}): {got:?}", v + 1), "history", &cfg, &hist, json!({})));
                }
                if !must_fire && n != 0 {
                    found.push(mk_violation("C12", format!("{sig_base}/sequential-activates-overlap"), format!("typing the keys of an O-(...) group one after the other (never held together) activated v{}: {got:?}", v + 1), "history", &cfg, &hist, json!({})));
                }
            }
        }
    }
}

// ------------------------------------------------------------------------------------------------
// jobs

#[derive(Clone)]
enum Job {
    Table { first: usize },
    Triples { first: usize },
    A { set: usize, mode: usize, leader: usize, first: (usize, usize), depth: usize },
    B { cfg: usize, mode: usize, depth: usize },
}

fn a_units() -> Vec<Unit> {
    vec![Unit::L, Unit::K(0), Unit::K(1), Unit::K(2), Unit::K(3)]
}
fn a_gaps(tier: Tier) -> Vec<u32> {
    if tier == Tier::Quick {
        vec![T - 3, T + 4]
    } else {
        vec![2, T - 3, T + 4]
    }
}
fn triple_pool() -> Vec<Vec<Item>> {
    // length-1/2 over {a, b, S-a, O-(a b), O-(b a)}
    let base = [ITEMS[0].clone(), ITEMS[1].clone(), ITEMS[3].clone(), ITEMS[6].clone(), ITEMS[7].clone()];
    let mut v: Vec<Vec<Item>> = base.iter().map(|i| vec![i.clone()]).collect();
    for a in &base {
        for b in &base {
            v.push(vec![a.clone(), b.clone()]);
        }
    }
    v
}

fn jobs(tier: Tier) -> &'static Vec<Job> {
    static Q: OnceLock<Vec<Job>> = OnceLock::new();
    static TH: OnceLock<Vec<Job>> = OnceLock::new();
    let build = |tier: Tier| {
        let mut v = vec![];
        for first in 0..table_seqs(tier).len() {
            v.push(Job::Table { first });
        }
        if tier != Tier::Quick {
            for first in 0..triple_pool().len() {
                v.push(Job::Triples { first });
            }
        }
        let ng = a_gaps(tier).len();
        for set in 0..SETS.len() {
            for mode in 0..3 {
                for leader in 0..2 {
                    let depth = match (tier, leader) {
                        (Tier::Quick, 0) => 6,
                        (Tier::Quick, _) => 5,
                        (_, 0) => 6,
                        (_, _) => 5,
                    };
                    // first unit is always the leader (histories not starting with it are covered as
                    // suffixes after a timeout); shard on its gap and the second unit
                    for g in 0..ng {
                        for u in 0..5 {
                            v.push(Job::A { set, mode, leader, first: (g, u), depth });
                        }
                    }
                }
            }
        }
        for cfg in 0..BCFGS.len() {
            for mode in 0..3 {
                v.push(Job::B { cfg, mode, depth: if tier == Tier::Quick { 6 } else { 7 } });
            }
        }
        v
    };
    match tier {
        Tier::Quick => Q.get_or_init(|| build(tier)),
        _ => TH.get_or_init(|| build(tier)),
    }
}

fn n_jobs(t: Tier) -> usize {
    jobs(t).len()
}
fn job_level(_t: Tier, _i: usize) -> u32 {
    0
}
fn required_level(_t: Tier) -> u32 {
    0
}

fn run_job(tier: Tier, idx: usize, st: &mut Stats) {
    let j = jobs(tier)[idx].clone();
    let mut found: Vec<Violation> = vec![];
    match j {
        Job::Table { first } => {
            let all = table_seqs(tier);
            if let Some(v) = check_table(&[&all[first]], st) {
                found.push(v);
            }
            for second in 0..all.len() {
                if let Some(v) = check_table(&[&all[first], &all[second]], st) {
                    if !found.iter().any(|f| f.signature == v.signature) {
                        found.push(v);
                    }
                }
            }
        }
        Job::Triples { first } => {
            let pool = triple_pool();
            for b in 0..pool.len() {
                for c in 0..pool.len() {
                    if let Some(v) = check_table(&[&pool[first], &pool[b], &pool[c]], st) {
                        if !found.iter().any(|f| f.signature == v.signature) {
                            found.push(v);
                        }
                    }
                }
            }
        }
        Job::A { set, mode, leader, first, depth } => {
            let mode = MODES[mode];
            let cfg = cfg_a(set, mode, leader);
            let units = a_units();
            let gaps = a_gaps(tier);
            let mut cur: Vec<(Unit, u32)> = vec![(Unit::L, gaps[first.0])];
            // second unit fixed by the shard
            fn rec(cfg: &str, set: usize, mode: Mode, units: &[Unit], gaps: &[u32], cur: &mut Vec<(Unit, u32)>, depth: usize, st: &mut Stats, found: &mut Vec<Violation>) {
                if found.len() >= 3 {
                    return;
                }
                if cur.len() == depth {
                    if let Some(v) = check_a(cfg, set, mode, cur, st) {
                        if !found.iter().any(|f| f.signature == v.signature) {
                            found.push(v);
                        }
                    }
                    return;
                }
                for u in units {
                    for g in gaps {
                        cur.push((*u, *g));
                        rec(cfg, set, mode, units, gaps, cur, depth, st, found);
                        cur.pop();
                    }
                }
            }
            for g in &gaps {
                cur.push((units[first.1], *g));
                // also every shorter history is checked (depth 2..)
                if let Some(v) = check_a(&cfg, set, mode, &cur, st) {
                    found.push(v);
                }
                rec(&cfg, set, mode, &units, &gaps, &mut cur, depth, st, &mut found);
                cur.pop();
            }
            if idx % 37 == 0 {
                st.sample(json!({"family": "typing", "set": SETS[set].0, "mode": mode.name(), "leader_form": leader, "depth": depth, "cfg": cfg}));
            }
        }
        Job::B { cfg, mode, depth } => {
            run_b(cfg, MODES[mode], depth, st, &mut found);
            st.sample(json!({"family": "chords", "cfg": cfg_b(cfg, MODES[mode]), "depth": depth}));
        }
    }
    for v in found {
        st.violation(v);
    }
}

fn replay(d: &serde_json::Value) -> Vec<Violation> {
    let kind = d.get("kind").and_then(|x| x.as_str()).unwrap_or("");
    let cfg = d.get("cfg").and_then(|x| x.as_str()).unwrap_or("").to_string();
    let mut st = Stats::default();
    if kind == "table" {
        // re-derive by re-running the table jobs that produce this cfg
        for tier in [Tier::Quick] {
            let all = table_seqs(tier);
            for a in 0..all.len() {
                let one = check_table(&[&all[a]], &mut st);
                if let Some(v) = one {
                    if v.detail.get("cfg").and_then(|x| x.as_str()) == Some(cfg.as_str()) {
                        return vec![v];
                    }
                }
                for b in 0..all.len() {
                    // cheap textual prefilter
                    if !cfg.contains(&format!("v1 ({}) v2 ({})", seq_text(&all[a]), seq_text(&all[b]))) {
                        continue;
                    }
                    if let Some(v) = check_table(&[&all[a], &all[b]], &mut st) {
                        return vec![v];
                    }
                }
            }
        }
        return vec![];
    }
    // history kinds: find which family by the cfg text
    let Some((cfg, hist)) = detail_cfg_hist(d) else { return vec![] };
    for set in 0..SETS.len() {
        for mode in MODES {
            for leader in 0..2 {
                if cfg_a(set, mode, leader) == cfg {
                    // recover units from the history
                    let mut units = vec![];
                    let mut i = 0;
                    while i + 3 < hist.len() {
                        if let (Ev::P(c), Ev::T(1), Ev::R(_), Ev::T(g)) = (hist[i], hist[i + 1], hist[i + 2], hist[i + 3]) {
                            let u = if c == kc("l") { Unit::L } else { Unit::K(KEYS.iter().position(|k| kc(k) == c).unwrap_or(3)) };
                            units.push((u, g));
                            i += 4;
                        } else {
                            break;
                        }
                    }
                    return check_a(&cfg, set, mode, &units, &mut st).into_iter().collect();
                }
            }
        }
    }
    if cfg.contains("(defseq v1 (C-a) v2 (S-b) v3 (M-c))") {
        // modifier-sides scenarios live in the chord job of config 0
        for mode in MODES {
            if cfg.contains(mode.name()) {
                let mut found = vec![];
                run_b(0, mode, 2, &mut st, &mut found);
                return found.into_iter().filter(|v| v.signature.contains("mod-sides")).collect();
            }
        }
        return vec![];
    }
    for i in 0..BCFGS.len() {
        for (mi, mode) in MODES.iter().enumerate() {
            if cfg_b(i, *mode) == cfg {
                let mut found = vec![];
                let _ = mi;
                run_b(i, *mode, 6, &mut st, &mut found);
                let want = d.get("history").and_then(|x| x.as_str()).unwrap_or("");
                let exact: Vec<Violation> = found.iter().filter(|v| v.detail.get("history").and_then(|x| x.as_str()) == Some(want)).cloned().collect();
                return if exact.is_empty() { found } else { exact };
            }
        }
    }
    vec![]
}
