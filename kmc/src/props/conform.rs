//! Conformance of the loop twin (c07::run_loop) with the REAL `Kanata::start_processing_loop`:
//! real thread, real channel, real clock. Wall-clock and therefore not exhaustive; it decides
//! nothing by itself. Its role is to keep the twin — on which C01/C07/C15/C18 rely — bound to the
//! code: a change to the control structure of the real loop (last_tick handling after a blocked
//! wait, order of event/tick, blocking condition never/always true) shows up here.
use super::c07::{run_loop, Step};
use crate::sim::kc;
use kanata_parser::keys::OsCode;
use kanata_state_machine::oskbd::{KeyEvent, KeyValue};
use kanata_state_machine::Kanata;
use std::sync::Arc;
use std::time::{Duration, Instant};

pub struct ConfTrace {
    pub tag: &'static str,
    pub cfg: &'static str,
    /// (gap in ms before the event, press?, key name)
    pub script: &'static [(u32, bool, &'static str)],
    pub tail_ms: u32,
}

const PLAIN: &str = "(defsrc a b c)\n(deflayer base a b c)\n";
const LAYER: &str = "(defsrc a b c)\n(deflayer base (layer-while-held nav) b c)\n(deflayer nav a x y)\n";
const TAPHOLD: &str = "(defsrc a b c)\n(deflayer base (tap-hold 300 300 x lsft) b c)\n";
const TAPHOLD_PRESS: &str = "(defsrc a b c)\n(deflayer base (tap-hold-press 300 300 x lsft) b c)\n";
const ONESHOT: &str = "(defsrc a b c)\n(deflayer base (one-shot 400 lsft) b c)\n";
const MACRO: &str = "(defsrc a b c)\n(deflayer base (macro x 30 y 30 z) b c)\n";
const TAPDANCE: &str = "(defsrc a b c)\n(deflayer base (tap-dance 300 (x y z)) b c)\n";
const CHORD: &str = "(defsrc a b c)\n(deflayer base (chord g ka) (chord g kb) c)\n(defchords g 300 (ka) a (kb) b (ka kb) x)\n";
const SEQ: &str = "(defcfg sequence-timeout 400)\n(defsrc a b c)\n(deflayer base sldr b c)\n(defvirtualkeys v1 x)\n(defseq v1 (b c))\n";
const CAPSWORD: &str = "(defsrc a b c)\n(deflayer base (caps-word 400) b c)\n";
const VKEY_HFD: &str = "(defsrc a b c)\n(deflayer base (hold-for-duration 300 v1) b c)\n(defvirtualkeys v1 x)\n";
const ONIDLE: &str = "(defsrc a b c)\n(deflayer base (on-idle 300 tap-vkey v1) b c)\n(defvirtualkeys v1 x)\n";

pub const TRACES: &[ConfTrace] = &[
    ConfTrace { tag: "plain/taps", cfg: PLAIN, script: &[(30, true, "a"), (30, false, "a"), (30, true, "b"), (30, true, "c"), (30, false, "b"), (30, false, "c")], tail_ms: 100 },
    ConfTrace { tag: "plain/after-long-idle", cfg: PLAIN, script: &[(1500, true, "a"), (30, false, "a")], tail_ms: 100 },
    ConfTrace { tag: "layer/held", cfg: LAYER, script: &[(30, true, "a"), (40, true, "b"), (30, false, "b"), (30, false, "a"), (30, true, "b"), (30, false, "b")], tail_ms: 100 },
    ConfTrace { tag: "layer/release-order", cfg: LAYER, script: &[(30, true, "a"), (40, true, "c"), (30, false, "a"), (30, false, "c")], tail_ms: 100 },
    ConfTrace { tag: "taphold/tap", cfg: TAPHOLD, script: &[(30, true, "a"), (20, false, "a")], tail_ms: 600 },
    ConfTrace { tag: "taphold/hold", cfg: TAPHOLD, script: &[(30, true, "a"), (900, true, "b"), (30, false, "b"), (30, false, "a")], tail_ms: 200 },
    // after a long blocked wait the elapsed time must NOT be credited to the new press
    ConfTrace { tag: "taphold/tap-after-long-idle", cfg: TAPHOLD, script: &[(1800, true, "a"), (20, false, "a")], tail_ms: 600 },
    ConfTrace { tag: "taphold/interrupted-tap", cfg: TAPHOLD, script: &[(30, true, "a"), (20, true, "b"), (20, false, "b"), (20, false, "a")], tail_ms: 600 },
    ConfTrace { tag: "taphold-press/hold-by-press", cfg: TAPHOLD_PRESS, script: &[(30, true, "a"), (20, true, "b"), (20, false, "b"), (20, false, "a")], tail_ms: 600 },
    ConfTrace { tag: "taphold/timeout-while-only-key", cfg: TAPHOLD, script: &[(30, true, "a"), (900, false, "a")], tail_ms: 200 },
    ConfTrace { tag: "oneshot/applies", cfg: ONESHOT, script: &[(30, true, "a"), (20, false, "a"), (40, true, "b"), (20, false, "b"), (60, true, "b"), (20, false, "b")], tail_ms: 700 },
    ConfTrace { tag: "oneshot/expires", cfg: ONESHOT, script: &[(30, true, "a"), (20, false, "a"), (1000, true, "b"), (20, false, "b")], tail_ms: 200 },
    ConfTrace { tag: "oneshot/after-long-idle", cfg: ONESHOT, script: &[(1500, true, "a"), (20, false, "a"), (40, true, "b"), (20, false, "b")], tail_ms: 700 },
    ConfTrace { tag: "macro/runs-to-end", cfg: MACRO, script: &[(30, true, "a"), (20, false, "a")], tail_ms: 400 },
    ConfTrace { tag: "macro/with-other-key", cfg: MACRO, script: &[(30, true, "a"), (20, false, "a"), (200, true, "b"), (20, false, "b")], tail_ms: 300 },
    ConfTrace { tag: "tapdance/one", cfg: TAPDANCE, script: &[(30, true, "a"), (20, false, "a")], tail_ms: 700 },
    ConfTrace { tag: "tapdance/two", cfg: TAPDANCE, script: &[(30, true, "a"), (20, false, "a"), (40, true, "a"), (20, false, "a")], tail_ms: 700 },
    ConfTrace { tag: "tapdance/one-then-one", cfg: TAPDANCE, script: &[(30, true, "a"), (20, false, "a"), (900, true, "a"), (20, false, "a")], tail_ms: 700 },
    ConfTrace { tag: "chord/both", cfg: CHORD, script: &[(30, true, "a"), (20, true, "b"), (40, false, "a"), (20, false, "b")], tail_ms: 600 },
    ConfTrace { tag: "chord/single-timeout", cfg: CHORD, script: &[(30, true, "a"), (900, false, "a")], tail_ms: 200 },
    ConfTrace { tag: "seq/completes", cfg: SEQ, script: &[(30, true, "a"), (20, false, "a"), (40, true, "b"), (20, false, "b"), (40, true, "c"), (20, false, "c")], tail_ms: 300 },
    ConfTrace { tag: "seq/times-out", cfg: SEQ, script: &[(30, true, "a"), (20, false, "a"), (40, true, "b"), (20, false, "b"), (1000, true, "c"), (20, false, "c")], tail_ms: 300 },
    ConfTrace { tag: "capsword/word", cfg: CAPSWORD, script: &[(30, true, "a"), (20, false, "a"), (40, true, "b"), (20, false, "b"), (1000, true, "b"), (20, false, "b")], tail_ms: 300 },
    ConfTrace { tag: "hfd/pulse", cfg: VKEY_HFD, script: &[(30, true, "a"), (20, false, "a")], tail_ms: 800 },
    ConfTrace { tag: "onidle/fires-once", cfg: ONIDLE, script: &[(30, true, "b"), (20, false, "b")], tail_ms: 1200 },
];

/// ticks executed up to the last output event (the `t:Nms` markers of the simulated output)
fn sum_ticks(events: &[String]) -> u64 {
    events.iter().filter_map(|e| e.strip_prefix("t:").and_then(|x| x.strip_suffix("ms")).and_then(|x| x.parse::<u64>().ok())).sum()
}

pub struct RealRun {
    pub outputs: Vec<String>,
    pub ticks: u64,
    pub wall_ms: u64,
}

/// Runs the script against the real processing loop (own thread), with real sleeps.
pub fn real_loop_run(t: &ConfTrace) -> Result<RealRun, String> {
    let k = Kanata::new_from_str(t.cfg, Default::default()).map_err(|e| format!("{e:?}"))?;
    let arc = Arc::new(parking_lot::Mutex::new(k));
    let (tx, rx) = std::sync::mpsc::sync_channel::<KeyEvent>(100);
    Kanata::start_processing_loop(arc.clone(), rx, None, true);
    let start = Instant::now();
    let mut due = Duration::from_millis(0);
    for (gap, press, key) in t.script {
        due += Duration::from_millis(*gap as u64);
        let now = start.elapsed();
        if due > now {
            std::thread::sleep(due - now);
        }
        let ev = KeyEvent { code: OsCode::from_u16(kc(key)).unwrap(), value: if *press { KeyValue::Press } else { KeyValue::Release } };
        tx.send(ev).map_err(|e| format!("send: {e}"))?;
    }
    std::thread::sleep(Duration::from_millis(t.tail_ms as u64));
    let wall_ms = start.elapsed().as_millis() as u64;
    let k = arc.lock();
    let outputs: Vec<String> = k.kbd_out.outputs.events.iter().filter(|e| !e.starts_with("t:")).cloned().collect();
    let ticks = sum_ticks(&k.kbd_out.outputs.events);
    drop(k);
    // the loop thread is detached; dropping tx makes it return on its next recv
    drop(tx);
    Ok(RealRun { outputs, ticks, wall_ms })
}

/// Twin prediction (blocking mode) for the same script.
pub fn twin_run(t: &ConfTrace) -> Result<(Vec<String>, u64), String> {
    let mut steps = vec![];
    for (gap, press, key) in t.script {
        if *gap > 1 {
            steps.push(Step::G(*gap - 1));
        }
        steps.push(Step::E(*press, kc(key)));
    }
    steps.push(Step::G(t.tail_ms));
    let r = run_loop(t.cfg, &steps, true, false)?;
    Ok((r.outputs.iter().map(|(_, e)| e.clone()).collect(), r.ticked_ms))
}

pub struct ConfResult {
    pub ok: bool,
    pub attempts: u32,
    pub detail: String,
    pub real_ticks: u64,
    pub twin_ticks: u64,
    pub wall_ms: u64,
}

/// Compares; a mismatch is retried (wall-clock scheduling noise) up to 3 attempts.
pub fn check_trace(t: &ConfTrace) -> ConfResult {
    let (twin_out, twin_ticks) = match twin_run(t) {
        Ok(x) => x,
        Err(e) => return ConfResult { ok: false, attempts: 0, detail: format!("twin failed: {e}"), real_ticks: 0, twin_ticks: 0, wall_ms: 0 },
    };
    let mut last = String::new();
    let mut rr = RealRun { outputs: vec![], ticks: 0, wall_ms: 0 };
    for attempt in 1..=3 {
        match real_loop_run(t) {
            Err(e) => last = format!("real loop failed: {e}"),
            Ok(r) => {
                // the real loop ticks once per elapsed real ms while not blocked; the twin counts the
                // same in logical ms. Generous band: scheduling noise, but a loop that never blocks
                // (ticks ~ wall) or credits blocked time to the next tick is far outside it.
                let ticks_ok = r.ticks <= twin_ticks * 3 + 150;
                if r.outputs == twin_out && ticks_ok {
                    return ConfResult { ok: true, attempts: attempt, detail: String::new(), real_ticks: r.ticks, twin_ticks, wall_ms: r.wall_ms };
                }
                last = if r.outputs != twin_out { format!("real loop outputs {:?}; twin predicts {:?}", r.outputs, twin_out) } else { format!("real loop executed {} ticks in {} ms of wall time; twin executes {} (it blocks the rest)", r.ticks, r.wall_ms, twin_ticks) };
                rr = r;
            }
        }
    }
    ConfResult { ok: false, attempts: 3, detail: last, real_ticks: rr.ticks, twin_ticks, wall_ms: rr.wall_ms }
}
