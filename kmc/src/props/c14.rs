//! C14 — OS key-repeat is forwarded for, and only for, keys kanata is holding down.
use super::*;
use crate::explore::*;
use crate::par::{PropDef, Stats, Tier};
use crate::sim::{kc, Ev, Out, Sim};
use serde_json::json;
use std::sync::OnceLock;

pub fn def() -> PropDef {
    PropDef {
        id: "C14",
        level: "model_checking",
        n_jobs,
        job_level,
        run_job,
        replay,
        rule: "configs: key-producing base forms {x, S-x, C-S-x, (multi lctl x), (unmod x), (unshift x), use-defsrc, _ over a lower layer} wrapped 0..2 times (quick: 0..1 at depth D, 2 at D-1) in {multi, tap-hold tap slot, tap-hold hold slot, tap-hold-press/release-timeout timeout slot, tap-dance, one-shot, fork left/right, switch case, v1 chord, v2 chord}, on 1-2 layers (subject key a; b in {plain b, lsft}; c = layer-while-held) with and without a defoverrides entry on the produced key; plus curated 3-layer configs with two layer keys; plus a chords-v2 family (a key taking part in two chords, one of them disabled on the base layer: with both participants of the active chord held, a repeat of either repeats the chord's output); plus a sequence-mode family (leader key + defseq in the three sequence-input modes: keys typed, held and repeated while a sequence is active, after it failed, timed out or completed); plus an override-chain family (subject forms that can produce x or y, chained defoverrides whose outputs depend on held lctl / lsft, the modifiers being plain keys held together with the subject). Histories: ALL physically consistent histories of D steps over {press, release, repeat of a and b; press/release c; tick 1; tick 6} (repeats at every point, also while a tap-hold is pending). Safety oracle on EVERY repeat step: at most one output event, it is a repeat, and its key is in the OS-down set before the step. Completeness oracle at every leaf where exactly one non-layer physical key p is down: settle 45 ticks; if the OS-down set D is non-empty, a repeat of p must emit a repeat for a member of D, and (for output chords, whose modifiers are listed first) for the non-modifier member. The probe applies only while no layer key has been released since p's first press (layers activated later leave the action's layer active) (the property speaks of actions on the active layers).",
        assumptions: &["D is attributed to p because every other held physical key is a pure layer key", "in the sequence-mode family the leader key is treated like a layer key (it has no output of its own)"],
        required_level,
        min_outcomes: 3,
    }
}

struct Job {
    tag: String,
    cfg: String,
    keys: Vec<&'static str>,
    layer_keys: Vec<&'static str>,
    /// physical keys mapped to a plain modifier: they may be held together with the probed key
    mod_keys: Vec<&'static str>,
    depth: usize,
    level: u32,
}

const BASES: &[(&str, &str)] = &[("key", "x"), ("chord", "S-x"), ("chord2", "C-S-x"), ("multi", "(multi lctl x)"), ("unmod", "(unmod x)"), ("unshift", "(unshift x)"), ("src", "use-defsrc"), ("trans", "_")];
const WRAPS: &[(&str, &str)] = &[
    ("multi", "(multi {F} lalt)"),
    ("th-tap", "(tap-hold 5 5 {F} lsft)"),
    ("th-hold", "(tap-hold-press 5 5 y {F})"),
    ("th-timeout", "(tap-hold-press-timeout 5 5 y lalt {F})"),
    ("th-rel-timeout", "(tap-hold-release-timeout 5 5 y lalt {F})"),
    ("td", "(tap-dance 5 ({F} y))"),
    ("os", "(one-shot 8 {F})"),
    ("fork-l", "(fork {F} y (rsft))"),
    ("fork-r", "(fork y {F} (lsft))"),
    ("switch", "(switch () {F} break)"),
    ("chord1", "CHORD1"),
    ("chord2", "CHORD2"),
];

fn wrap(w: &str, f: &str) -> String {
    w.replace("{F}", f)
}

/// builds a config: subject action on key a (layer base), b, c = layer-while-held up
fn build(form: &str, b: &str, two_layers: bool, upper_a: &str, ovr: bool, chord1: Option<&str>, chord2: Option<&str>) -> String {
    let mut s = String::new();
    let conc = chord2.is_some();
    s += &format!("(defcfg concurrent-tap-hold {} process-unmapped-keys no)\n(defsrc a b c)\n", if conc { "yes" } else { "no" });
    let a_cell = if let Some(_) = chord1 { "(chord g ka)".to_string() } else if chord2.is_some() { "a".to_string() } else { form.to_string() };
    let b_cell = if chord1.is_some() { "(chord g kb)".to_string() } else { b.to_string() };
    s += &format!("(deflayer base {a_cell} {b_cell} {})\n", if two_layers { "(layer-while-held up)" } else { "c" });
    if two_layers {
        s += &format!("(deflayer up {upper_a} _ _)\n");
    }
    if let Some(f) = chord1 {
        s += &format!("(defchords g 5 (ka) {f} (kb) y (ka kb) z)\n");
    }
    if let Some(f) = chord2 {
        s += &format!("(defchordsv2 (a b) {f} 5 all-released ())\n");
    }
    if ovr {
        s += "(defoverrides (lsft x) (lsft z) (x) (w))\n";
    }
    s
}

fn jobs(tier: Tier) -> &'static Vec<Job> {
    static Q: OnceLock<Vec<Job>> = OnceLock::new();
    static T: OnceLock<Vec<Job>> = OnceLock::new();
    let cell = match tier {
        Tier::Quick => &Q,
        Tier::Thorough => &T,
    };
    cell.get_or_init(|| {
        let mut v: Vec<Job> = vec![];
        let levels: &[(u32, usize)] = match tier {
            Tier::Quick => &[(0, 5)],
            Tier::Thorough => &[(0, 5), (1, 6)],
        };
        for (lvl, d) in levels.iter().copied() {
            // forms with 0, 1, 2 wrappers
            let mut forms: Vec<(String, String, usize)> = vec![];
            for (bt, b) in BASES {
                forms.push((bt.to_string(), b.to_string(), 0));
                for (wt, w) in WRAPS {
                    if w.starts_with("CHORD") {
                        forms.push((format!("{wt}({bt})"), format!("{w}:{b}"), 1));
                        continue;
                    }
                    let f1 = wrap(w, b);
                    forms.push((format!("{wt}({bt})"), f1.clone(), 1));
                    for (wt2, w2) in WRAPS {
                        if w2.starts_with("CHORD") {
                            forms.push((format!("{wt2}({wt}({bt}))"), format!("{w2}:{f1}"), 2));
                        } else {
                            forms.push((format!("{wt2}({wt}({bt}))"), wrap(w2, &f1), 2));
                        }
                    }
                }
            }
            for (tag, form, nwrap) in &forms {
                let depth = if *nwrap == 2 { d - 1 } else { d };
                let (c1, c2, f): (Option<&str>, Option<&str>, &str) = if let Some(r) = form.strip_prefix("CHORD1:") {
                    (Some(r), None, r)
                } else if let Some(r) = form.strip_prefix("CHORD2:") {
                    (None, Some(r), r)
                } else {
                    (None, None, form.as_str())
                };
                let uses_trans = f.contains('_');
                // variants: (b, two_layers, upper_a, ovr)
                let mut variants: Vec<(&str, bool, &str, bool)> = vec![];
                if !uses_trans {
                    variants.push(("b", false, "", false));
                    if *nwrap <= 1 {
                        variants.push(("lsft", false, "", true));
                        variants.push(("b", true, "_", false));
                    }
                } else {
                    // `_` on the base layer resolves to defsrc; also put the form on the upper layer over x
                    variants.push(("b", false, "", false));
                }
                for (b, two, ua, ovr) in variants {
                    let cfg = build(f, b, two, ua, ovr, c1, c2);
                    v.push(Job { tag: format!("{tag}/b={b}/{}{}", if two { "2L" } else { "1L" }, if ovr { "/ovr" } else { "" }), cfg, keys: vec!["a", "b", "c"], layer_keys: if two { vec!["c"] } else { vec![] }, mod_keys: vec![], depth, level: lvl });
                }
                if uses_trans && c1.is_none() && c2.is_none() {
                    // the form (containing _) on the upper layer, falling through to x / S-x on the base layer
                    for lower in ["x", "S-x"] {
                        let cfg = format!("(defcfg process-unmapped-keys no)\n(defsrc a b c)\n(deflayer base {lower} b (layer-while-held up))\n(deflayer up {f} _ _)\n");
                        v.push(Job { tag: format!("{tag}/upper-over-{lower}"), cfg, keys: vec!["a", "b", "c"], layer_keys: vec!["c"], mod_keys: vec![], depth, level: lvl });
                    }
                }
            }
            // override-chain family: the produced key depends on held modifiers through chained
            // overrides; b = lctl and c = lsft are plain modifier keys (held together with the subject)
            for (ftag, form) in [
                ("th", "(tap-hold 5 5 x y)"),
                ("th-press", "(tap-hold-press 5 5 x y)"),
                ("td", "(tap-dance 5 (x y))"),
                ("fork", "(fork x y (lsft))"),
                ("switch", "(switch ((input real c)) y break () x break)"),
                ("key-x", "x"),
                ("key-y", "y"),
            ] {
                for (otag, ovr) in [("chain-sc", "(defoverrides (lsft x) (lsft y) (lctl y) (lctl z))"), ("chain-cs", "(defoverrides (lctl x) (lctl y) (lsft y) (lsft z))"), ("two", "(defoverrides (lctl x) (lctl w) (lctl y) (lctl z))")] {
                    let cfg = format!("(defcfg process-unmapped-keys no)\n(defsrc a b c)\n(deflayer base {form} lctl lsft)\n{ovr}\n");
                    v.push(Job { tag: format!("ovr-chain/{ftag}/{otag}"), cfg, keys: vec!["a", "b", "c"], layer_keys: vec![], mod_keys: vec!["b", "c"], depth: d + 1, level: lvl });
                }
            }
            // chords v2: a key that takes part in two chords, one of them disabled on the base layer
            for (tag, chords) in [
                ("first-disabled", "(a b) x 5 all-released (base)\n  (a c) y 5 all-released ()"),
                ("second-disabled", "(a c) y 5 all-released ()\n  (a b) x 5 all-released (base)"),
                ("none-disabled", "(a b) x 5 all-released ()\n  (a c) y 5 all-released ()"),
            ] {
                let cfg = format!("(defcfg concurrent-tap-hold yes process-unmapped-keys no)\n(defsrc a b c)\n(deflayer base a b c)\n(defchordsv2\n  {chords})\n");
                v.push(Job { tag: format!("v2-two-chords/{tag}"), cfg, keys: vec!["a", "b", "c"], layer_keys: vec![], mod_keys: vec![], depth: d + 1, level: lvl });
            }
            // sequence mode: c is the sequence leader (no output of its own); a and b are typed, held and
            // repeated while the sequence is active, after it failed / timed out / completed
            for mode in ["hidden-suppressed", "hidden-delay-type", "visible-backspaced"] {
                let cfg = format!("(defcfg process-unmapped-keys no sequence-input-mode {mode} sequence-timeout 8)\n(defsrc a b c)\n(deflayer base a b sldr)\n(defvirtualkeys v1 x)\n(defseq v1 (a b))\n");
                v.push(Job { tag: format!("sequence-mode/{mode}"), cfg, keys: vec!["a", "b", "c"], layer_keys: vec!["c"], mod_keys: vec![], depth: d + 1, level: lvl });
            }
            // curated 3-layer configs with two layer keys
            for (tag, l0, l1, l2) in [
                ("3L-diff", "x", "y", "z"),
                ("3L-trans-mid", "x", "_", "z"),
                ("3L-trans-top", "x", "y", "_"),
                ("3L-chords", "S-x", "C-y", "(multi lalt z)"),
                ("3L-th", "(tap-hold 5 5 x lsft)", "y", "(tap-hold 5 5 z lctl)"),
            ] {
                let cfg = format!("(defcfg process-unmapped-keys no)\n(defsrc a b c)\n(deflayer l0 {l0} (layer-while-held l1) (layer-while-held l2))\n(deflayer l1 {l1} _ _)\n(deflayer l2 {l2} _ _)\n");
                v.push(Job { tag: format!("curated/{tag}"), cfg, keys: vec!["a", "b", "c"], layer_keys: vec!["b", "c"], mod_keys: vec![], depth: d + 1, level: lvl });
            }
        }
        v
    })
}

fn n_jobs(t: Tier) -> usize {
    jobs(t).len()
}
fn job_level(t: Tier, i: usize) -> u32 {
    jobs(t)[i].level
}
fn required_level(_t: Tier) -> u32 {
    0
}

const MODS: &[&str] = &["LShift", "RShift", "LCtrl", "RCtrl", "LAlt", "RAlt", "LGui", "RGui"];

/// returns Some((signature, what)) on violation
fn check(j: &Job, hist: &[Ev], down: &[u16], first_new: usize, st: &mut Stats) -> Option<(String, String)> {
    let mut s = match Sim::new(&j.cfg) {
        Ok(s) => s,
        Err(e) => return Some(("rejected".into(), e)),
    };
    st.evaluations += 1;
    for (i, e) in hist.iter().enumerate() {
        let n0 = s.n_out();
        let before = crate::sim::os_down_set(&s.trace());
        let seq_active_before = s.k.sequence_state.is_active();
        if let Err(m) = s.step(*e) {
            return Some((panic_signature(&m), m));
        }
        if i >= first_new {
            st.transitions += 1;
            st.states.insert(s.digest());
        }
        if let Ev::Rep(_) = e {
            st.validated += 1;
            let new: Vec<String> = s.raw_outputs()[n0..].iter().filter(|x| !x.starts_with("t:")).cloned().collect();
            if new.len() > 1 {
                return Some(("safety::more-than-one-event".into(), format!("a repeat input produced {} output events {:?}", new.len(), new)));
            }
            if let Some(ev) = new.first() {
                let Some(k) = ev.strip_prefix("out:↓") else {
                    return Some(("safety::not-a-repeat".into(), format!("a repeat input produced {ev:?}")));
                };
                st.outcome("repeat-emitted");
                if !before.iter().any(|d| d == k) {
                    // discriminated for the known-findings list: a key typed during a hidden sequence that has ENDED
                    // since (sequence inactive at the repeat) versus a repeat forwarded while a sequence is active
                    let ctx = if j.tag.starts_with("sequence-mode/hidden") { if seq_active_before { "/while-hidden-sequence-active" } else { "/after-hidden-sequence-ended" } } else { "" };
                    return Some((format!("safety::repeat-for-key-that-is-up{ctx}::{k}"), format!("repeat emitted for {k}, but the keys down at the OS are {before:?}")));
                }
            } else {
                st.outcome("repeat-suppressed");
            }
        }
    }
    // completeness probe
    let layer_codes: Vec<u16> = j.layer_keys.iter().map(|k| kc(k)).collect();
    let mod_codes: Vec<u16> = j.mod_keys.iter().map(|k| kc(k)).collect();
    let nonlayer: Vec<u16> = down.iter().copied().filter(|c| !layer_codes.contains(c) && !mod_codes.contains(c)).collect();
    // the layer context must be the one under which p was pressed: no layer key toggled since p's press
    let layer_ctx_unchanged = |p: u16| -> bool {
        // (first press: multi-press actions such as tap-dance are bound to the layer of their first press)
        let Some(pi) = hist.iter().position(|e| *e == Ev::P(p)) else { return false };
        // a layer activated later leaves the layer of the action active; only a layer *release* can deactivate it
        !hist[pi..].iter().any(|e| matches!(e, Ev::R(c) if layer_codes.contains(c)))
    };
    if j.tag.starts_with("v2-two-chords") && nonlayer.len() == 2 {
        // both participants of a chord are down: whichever of them the OS repeats, the chord's output repeats
        if let Err(m) = s.step(Ev::T(45)) {
            return Some((panic_signature(&m), m));
        }
        let d = crate::sim::os_down_set(&s.trace());
        let is_chord_out = d.len() == 1 && (d[0] == "X" || d[0] == "Y");
        if is_chord_out {
            for p in nonlayer.iter().copied() {
                let n0 = s.n_out();
                if let Err(m) = s.step(Ev::Rep(p)) {
                    return Some((panic_signature(&m), m));
                }
                st.validated += 1;
                let new: Vec<String> = s.raw_outputs()[n0..].iter().filter(|x| !x.starts_with("t:")).cloned().collect();
                let rep = new.first().and_then(|e| e.strip_prefix("out:↓")).map(|x| x.to_string());
                if rep.as_deref() != Some(d[0].as_str()) {
                    st.outcome("probe-missing");
                    return Some(("completeness::chord-participant-no-repeat".into(), format!("chord output {d:?} is down with both participants held, but a repeat of participant code {p} emitted {new:?}")));
                }
                st.outcome("probe-ok");
            }
        }
    }
    if nonlayer.len() == 1 && layer_ctx_unchanged(nonlayer[0]) {
        let p = nonlayer[0];
        if let Err(m) = s.step(Ev::T(45)) {
            return Some((panic_signature(&m), m));
        }
        let d_all = crate::sim::os_down_set(&s.trace());
        // what the held plain-modifier keys put down themselves is not attributed to p
        let held_mod_out: Vec<&str> = j.mod_keys.iter().filter(|k| down.contains(&kc(k))).map(|k| if *k == "b" { "LCtrl" } else { "LShift" }).collect();
        let d: Vec<String> = if j.mod_keys.is_empty() { d_all.clone() } else { d_all.iter().filter(|x| !held_mod_out.contains(&x.as_str())).cloned().collect() };
        if !d.is_empty() {
            let n0 = s.n_out();
            if let Err(m) = s.step(Ev::Rep(p)) {
                return Some((panic_signature(&m), m));
            }
            st.validated += 1;
            let new: Vec<String> = s.raw_outputs()[n0..].iter().filter(|x| !x.starts_with("t:")).cloned().collect();
            let rep = new.first().and_then(|e| e.strip_prefix("out:↓")).map(|x| x.to_string());
            match rep {
                None => {
                    st.outcome("probe-missing");
                    return Some(("completeness::no-repeat".into(), format!("only physical key down produces {d:?} at the OS, but its repeat emitted nothing ({new:?})")));
                }
                Some(k) => {
                    if !d_all.contains(&k) {
                        return Some((format!("safety::repeat-for-key-that-is-up::{k}"), format!("probe: repeat emitted for {k}, down set {d_all:?}")));
                    }
                    // "preferring the last-listed key of a chord over its modifiers": checked for output
                    // chords (modifiers listed first); a `multi` that lists a modifier last may repeat it
                    let has_nonmod = d.iter().any(|x| !MODS.contains(&x.as_str()));
                    if has_nonmod && MODS.contains(&k.as_str()) && !j.tag.contains("multi") {
                        return Some(("completeness::modifier-preferred-over-key".into(), format!("down set {d:?} has a non-modifier key but the repeat went to modifier {k}")));
                    }
                    st.outcome("probe-ok");
                }
            }
        } else {
            st.outcome("probe-nothing-down");
        }
    }
    st.distinct_traces.insert(crate::sim::hash_str(&crate::sim::trace_to_string(&s.trace())));
    None
}

fn alphabet(j: &Job) -> Vec<Ev> {
    let mut v = vec![];
    for k in &j.keys {
        v.push(Ev::P(kc(k)));
        v.push(Ev::R(kc(k)));
        if !j.layer_keys.contains(k) {
            v.push(Ev::Rep(kc(k)));
        }
    }
    v.push(Ev::T(1));
    v.push(Ev::T(6));
    v
}

fn run_job(tier: Tier, idx: usize, st: &mut Stats) {
    let j = &jobs(tier)[idx];
    if let Err(e) = Sim::new(&j.cfg) {
        st.configs_rejected += 1;
        st.outcome("rejected");
        if e.starts_with("PANIC") {
            st.violation(Violation { property: "C14".into(), signature: panic_signature(&e), what: e, detail: json!({"kind": "history", "cfg": j.cfg, "history": ""}) });
        }
        return;
    }
    st.configs_accepted += 1;
    let alpha = alphabet(j);
    let mut found: Vec<Violation> = vec![];
    for_each_history(&alpha, j.depth, Consistency::Physical, &[], |h, first_new, down| {
        if found.len() >= 3 {
            return;
        }
        if let Some((sig, what)) = check(j, h, down, first_new, st) {
            if !found.iter().any(|f| f.signature == sig) {
                found.push(mk_violation("C14", sig, format!("{} [{}]: {}", j.tag, crate::sim::hist_to_string(h), what), "history", &j.cfg, h, json!({"job": idx, "tier": tier.name()})));
            }
        }
    });
    if idx % 89 == 0 {
        st.sample(json!({"tag": j.tag, "cfg": j.cfg, "depth": j.depth}));
    }
    for v in found {
        st.violation(v);
    }
}

fn replay(d: &serde_json::Value) -> Vec<Violation> {
    let Some((_, h)) = detail_cfg_hist(d) else { return vec![] };
    let idx = d.get("extra").and_then(|e| e.get("job")).and_then(|x| x.as_u64()).unwrap_or(0) as usize;
    let tier = Tier::parse(d.get("extra").and_then(|e| e.get("tier")).and_then(|x| x.as_str()).unwrap_or("quick"));
    let j = &jobs(tier)[idx.min(jobs(tier).len() - 1)];
    let mut down: Vec<u16> = vec![];
    for e in &h {
        apply_phys(&mut down, *e);
    }
    let mut st = Stats::default();
    match check(j, &h, &down, 0, &mut st) {
        Some((sig, what)) => vec![mk_violation("C14", sig, what, "history", &j.cfg, &h, json!({}))],
        None => vec![],
    }
}
