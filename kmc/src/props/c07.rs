//! C07 — idle blocking is unobservable: sleeping while idle never changes behaviour.
//! Loop twin of `start_processing_loop` over a logical millisecond clock, explored exhaustively in two
//! modes (A: block whenever can_block_update_idle_waiting says so; B: always tick) on the real code.
use super::*;
use crate::cfggen::*;
use crate::par::{PropDef, Stats, Tier};
use crate::sim::{kc, Sim};
use kanata_state_machine::oskbd::{KeyEvent, KeyValue};
use kanata_parser::keys::OsCode;
use serde_json::json;
use std::sync::OnceLock;

pub fn def() -> PropDef {
    PropDef {
        id: "C07",
        level: "model_checking",
        n_jobs,
        job_level,
        run_job,
        replay,
        rule: "configs: every action-menu entry on key a (b, c plain) [U1, including latching and on-idle entries] + the curated feature-interaction configs [U3] + zippychord configs (explored from the start, from the state after the two-key chord, and from the state after a single-key chord was typed and released). Loop twin: a transcription of the control structure of start_processing_loop over a logical ms clock; everything inside is the real code (can_block_update_idle_waiting, handle_input_event, tick_ms). Steps: E(k) = an input event that begins a millisecond (event + the tick the loop runs with it), B(k) = a further event in the same millisecond (no tick), G(n) = n ms without input. Histories: ALL physically consistent sequences of D steps over {E/B press/release of a,b,c, G(1), G(7), G(40)} followed by G(60). Each history is executed twice on fresh real instances: mode A blocks (executes no tick) in every ms in which can_block_update_idle_waiting(1) is true, mode B always ticks. Oracle: (i) the output event lists with logical-ms stamps are identical in A and B (nothing postponed, nothing different after the gap); (ii) in mode B, every tick taken in a state where blocking was allowed emits nothing and leaves the state digest (hooks H1/H2) unchanged (stutter invariance: by determinism this extends the equality to every gap length and continuation). Long-gap family: gaps of 1100 and 70000 ms on curated configs. Conformance family (binds the twin to the code; wall clock, not exhaustive, reported under traces_validated_against_impl/counters): 25 scripted traces (plain, layers, tap-hold tap/hold/after long idle, one-shot, macro, tap-dance, chords, sequences, caps-word, hold-for-duration, on-idle) are run against the REAL Kanata::start_processing_loop (own thread, std mpsc channel, real clock, margins >= 10x) and must produce the outputs the twin predicts and execute no more than 3x+150 of the twin's ticks (i.e. really block).",
        assumptions: &[
            "the real thread interleavings of the processing thread with the OS event thread and the TCP thread are not explored (std/parking_lot primitives are invisible to loom/shuttle); all access to Kanata is under one mutex, so every interleaving is a sequence of whole critical sections, which is what the twin's alphabet enumerates",
            "scheduler jitter (ms_elapsed 2..10) is not modelled here",
            "live reload requests are covered by C15, not here",
        ],
        required_level,
        min_outcomes: 3,
    }
}

#[derive(Clone, Copy, Debug, PartialEq, Eq)]
pub enum Step {
    E(bool, u16),
    B(bool, u16),
    G(u32),
}

pub fn steps_to_string(h: &[Step]) -> String {
    h.iter()
        .map(|s| match s {
            Step::E(p, c) => format!("E{}:#{}", if *p { "d" } else { "u" }, c),
            Step::B(p, c) => format!("B{}:#{}", if *p { "d" } else { "u" }, c),
            Step::G(n) => format!("G:{n}"),
        })
        .collect::<Vec<_>>()
        .join(" ")
}
pub fn steps_parse(s: &str) -> Vec<Step> {
    s.split_whitespace()
        .filter_map(|t| {
            if let Some(n) = t.strip_prefix("G:") {
                return n.parse().ok().map(Step::G);
            }
            let (k, c) = t.split_once(":#")?;
            let c: u16 = c.parse().ok()?;
            match k {
                "Ed" => Some(Step::E(true, c)),
                "Eu" => Some(Step::E(false, c)),
                "Bd" => Some(Step::B(true, c)),
                "Bu" => Some(Step::B(false, c)),
                _ => None,
            }
        })
        .collect()
}

pub struct LoopRun {
    pub outputs: Vec<(u64, String)>,
    pub blocked_ms: u64,
    pub ticked_ms: u64,
    /// (ms, description) of stutter-invariance failures (mode B only)
    pub stutter: Option<(u64, String)>,
    pub quiesce: Option<(u64, String)>,
}

fn mask_digest(d: &str) -> String {
    // zippychord's state-change age counter is a pure age below its 10000-tick reset
    let mut out = String::with_capacity(d.len());
    let key = "zchd_ticks_since_state_change: ";
    let mut rest = d;
    while let Some(i) = rest.find(key) {
        out.push_str(&rest[..i + key.len()]);
        let after = &rest[i + key.len()..];
        let j = after.find(|c: char| !c.is_ascii_digit()).unwrap_or(after.len());
        out.push('N');
        rest = &after[j..];
    }
    out.push_str(rest);
    // chords v2: prev_active_layer / prev_queue_len are caches that are only read while
    // ticks_until_next_state_change > 0; mask them when it is 0
    if let Some(i) = out.find("cv2=(") {
        if let Some(j) = out[i..].find(");") {
            let seg = out[i..i + j].to_string();
            if let Some(k) = seg.rfind("];") {
                let tail: Vec<&str> = seg[k + 2..].split(',').collect();
                // ... and while the chords queue is empty (every input resets them)
                if tail.len() == 5 && (tail[1] == "0" || seg.contains("cv2=(q=[];")) {
                    let masked = format!("{}{},0,_,_,{}", &seg[..k + 2], tail[0], tail[4]);
                    out = format!("{}{}{}", &out[..i], masked, &out[i + j..]);
                }
            }
        }
    }
    // State::Tombstone is the placeholder a finished custom macro item leaves in `states` until the
    // next tick sweeps it (Layout::process_sequence_custom); no reader looks at it (keycodes(),
    // release matching and is_idle filter by variant), it only occupies one of the 64 slots
    out = out.replace(", Tombstone", "").replace("Tombstone, ", "").replace("[Tombstone]", "[]");
    out
}

/// Runs the loop twin. `blocking` = mode A.
pub fn run_loop(cfg: &str, steps: &[Step], blocking: bool, check_stutter: bool) -> Result<LoopRun, String> {
    let mut s = Sim::new(cfg)?;
    let mut ms: u64 = 0;
    let mut outs: Vec<(u64, String)> = vec![];
    let mut r = LoopRun { outputs: vec![], blocked_ms: 0, ticked_ms: 0, stutter: None, quiesce: None };
    let collect = |s: &Sim, from: usize, ms: u64, outs: &mut Vec<(u64, String)>| {
        for e in &s.raw_outputs()[from..] {
            if !e.starts_with("t:") {
                outs.push((ms, e.clone()));
            }
        }
    };
    let ev = |press: bool, c: u16| KeyEvent { code: OsCode::from_u16(c).unwrap(), value: if press { KeyValue::Press } else { KeyValue::Release } };
    let res = crate::sim::guarded(|| -> Result<(), String> {
        for st in steps {
            match *st {
                Step::E(p, c) => {
                    ms += 1;
                    let n0 = s.n_out();
                    // top of the loop iteration
                    let _cb = s.k.can_block_update_idle_waiting(1);
                    // blocked: recv() returns the event, last_tick = now - 1ms, event, then one tick.
                    // not blocked: try_recv() returns the event, event, then the elapsed tick.
                    s.k.handle_input_event(&ev(p, c)).map_err(|e| format!("{e:?}"))?;
                    s.k.tick_ms(1, &None).map_err(|e| format!("{e:?}"))?;
                    r.ticked_ms += 1;
                    collect(&s, n0, ms, &mut outs);
                }
                Step::B(p, c) => {
                    let n0 = s.n_out();
                    let _cb = s.k.can_block_update_idle_waiting(0);
                    s.k.handle_input_event(&ev(p, c)).map_err(|e| format!("{e:?}"))?;
                    // handle_time_ticks with 0 ms elapsed: no tick
                    collect(&s, n0, ms, &mut outs);
                }
                Step::G(n) => {
                    for _ in 0..n {
                        ms += 1;
                        let cb = s.k.can_block_update_idle_waiting(1);
                        if cb && blocking {
                            r.blocked_ms += 1;
                            continue;
                        }
                        let n0 = s.n_out();
                        let before = if cb && check_stutter && r.stutter.is_none() { Some(mask_digest(&s.digest_string())) } else { None };
                        s.k.tick_ms(1, &None).map_err(|e| format!("{e:?}"))?;
                        r.ticked_ms += 1;
                        collect(&s, n0, ms, &mut outs);
                        if cb {
                            if s.n_out() != n0 && r.quiesce.is_none() {
                                r.quiesce = Some((ms, format!("{:?}", &s.raw_outputs()[n0..])));
                            }
                            if let Some(b) = before {
                                let after = mask_digest(&s.digest_string());
                                if after != b {
                                    // first differing field
                                    let fa: Vec<&str> = after.split(';').collect();
                                    let fb: Vec<&str> = b.split(';').collect();
                                    let diff = fb.iter().zip(fa.iter()).find(|(x, y)| x != y).map(|(x, y)| format!("{x}  ->  {y}")).unwrap_or_default();
                                    r.stutter = Some((ms, diff));
                                }
                            }
                        }
                    }
                }
            }
        }
        Ok(())
    });
    match res {
        Err(p) => Err(format!("PANIC {p}")),
        Ok(Err(e)) => Err(format!("ERR {e}")),
        Ok(Ok(())) => {
            r.outputs = outs;
            Ok(r)
        }
    }
}

struct Job {
    tag: String,
    cfg: String,
    depth: usize,
    first: usize,
    long: bool,
    level: u32,
    /// Some(i) = conformance trace i against the real start_processing_loop (wall clock)
    conf: Option<usize>,
    /// steps executed before the enumerated part (must leave no key down)
    prefix: Vec<Step>,
}

fn jobs(tier: Tier) -> &'static Vec<Job> {
    static Q: OnceLock<Vec<Job>> = OnceLock::new();
    static T: OnceLock<Vec<Job>> = OnceLock::new();
    let cell = match tier {
        Tier::Quick => &Q,
        Tier::Thorough => &T,
    };
    cell.get_or_init(|| {
        let menu: Vec<MenuItem> = action_menu(5).into_iter().filter(|m| !m.tag.starts_with("lrld")).collect();
        let o = CfgOpts::default();
        let mut v = vec![];
        // conformance traces first: they are wall-clock and run best before the CPU-heavy jobs
        for i in 0..super::conform::TRACES.len() {
            v.push(Job { tag: format!("conformance/{}", super::conform::TRACES[i].tag), cfg: super::conform::TRACES[i].cfg.to_string(), depth: 0, first: 0, long: false, level: 0, conf: Some(i), prefix: vec![] });
        }
        let levels: &[(u32, usize, usize)] = match tier {
            Tier::Quick => &[(0, 4, 4)],
            Tier::Thorough => &[(0, 4, 4), (1, 5, 5), (2, 6, 5)],
        };
        for (lvl, d1, d3) in levels.iter().copied() {
            for m in &menu {
                let cfg = cfg3(&m.text, "b", "c", &o);
                for first in 0..9 {
                    v.push(Job { tag: format!("U1/{}", m.tag), cfg: cfg.clone(), depth: d1, first, long: false, level: lvl, conf: None, prefix: vec![] });
                }
            }
            for i in 0..super::c01::CURATED.len() {
                let cfg = super::c01::curated_cfg(i);
                for first in 0..9 {
                    v.push(Job { tag: format!("U3/{}", super::c01::CURATED[i].0), cfg: cfg.clone(), depth: d3, first, long: false, level: lvl, conf: None, prefix: vec![] });
                }
                if lvl == 0 {
                    v.push(Job { tag: format!("long/{}", super::c01::CURATED[i].0), cfg, depth: 3, first: 0, long: true, level: 0, conf: None, prefix: vec![] });
                }
            }
            // zippychord configs (with embedded dictionary): from the start, after the two-key chord, and
            // after the top-level single-key chord has been typed and released
            for (tag, text) in super::c01::EXTRA_CFGS {
                let (a, b, c) = (kc("a"), kc("b"), kc("c"));
                for (ptag, prefix) in [
                    ("", vec![]),
                    ("/after-ab", vec![Step::E(true, a), Step::B(true, b), Step::G(3), Step::E(false, a), Step::E(false, b)]),
                    ("/after-c", vec![Step::E(true, c), Step::G(2), Step::E(false, c)]),
                    ("/after-ab-c", vec![Step::E(true, a), Step::B(true, b), Step::G(3), Step::E(false, a), Step::E(false, b), Step::E(true, c), Step::G(2), Step::E(false, c)]),
                ] {
                    for first in 0..9 {
                        v.push(Job { tag: format!("U3x/{tag}{ptag}"), cfg: text.to_string(), depth: d3, first, long: false, level: lvl, conf: None, prefix: prefix.clone() });
                    }
                }
            }
        }
        v
    })
}

fn n_jobs(t: Tier) -> usize {
    jobs(t).len()
}
fn job_level(t: Tier, i: usize) -> u32 {
    jobs(t)[i].level
}
fn required_level(_t: Tier) -> u32 {
    0
}

/// enumerate step sequences; `first` = index of the first step choice among the 9 possible first steps
fn for_each_steps(depth: usize, first: usize, gaps: &[u32], f: &mut dyn FnMut(&[Step])) {
    let keys = [kc("a"), kc("b"), kc("c")];
    fn rec(depth: usize, first: Option<usize>, gaps: &[u32], keys: &[u16; 3], cur: &mut Vec<Step>, down: &mut [bool; 3], f: &mut dyn FnMut(&[Step])) {
        if cur.len() == depth {
            f(cur);
            return;
        }
        let mut choice = 0;
        let after_event = matches!(cur.last(), Some(Step::E(..)) | Some(Step::B(..)));
        for k in 0..3 {
            // E step
            for burst in [false, true] {
                if burst && !after_event {
                    continue;
                }
                if cur.is_empty() {
                    if let Some(fst) = first {
                        if choice != fst {
                            choice += 1;
                            continue;
                        }
                    }
                }
                choice += 1;
                let p = !down[k];
                cur.push(if burst { Step::B(p, keys[k]) } else { Step::E(p, keys[k]) });
                down[k] = p;
                rec(depth, first, gaps, keys, cur, down, f);
                down[k] = !p;
                cur.pop();
            }
        }
        for g in gaps {
            // no two gaps in a row (they merge)
            if matches!(cur.last(), Some(Step::G(_))) {
                continue;
            }
            if cur.is_empty() {
                if let Some(fst) = first {
                    if choice != fst {
                        choice += 1;
                        continue;
                    }
                }
            }
            choice += 1;
            cur.push(Step::G(*g));
            rec(depth, first, gaps, keys, cur, down, f);
            cur.pop();
        }
    }
    // first-step choices: 3 keys (E only at the start) + gaps
    let mut cur = vec![];
    let mut down = [false; 3];
    rec(depth, Some(first), gaps, &keys, &mut cur, &mut down, f);
}

fn check(cfg: &str, steps: &[Step], st: &mut Stats) -> Option<(String, String)> {
    crate::par::announce_value(&json!({"cfg": cfg, "history": steps_to_string(steps)}));
    let b = match run_loop(cfg, steps, false, true) {
        Ok(r) => r,
        Err(e) => return Some((panic_signature(&e), e)),
    };
    let a = match run_loop(cfg, steps, true, false) {
        Ok(r) => r,
        Err(e) => return Some((panic_signature(&e), e)),
    };
    st.evaluations += 2;
    st.validated += 1;
    st.transitions += steps.len() as u64;
    st.count("ms_blocked_in_mode_A", a.blocked_ms);
    st.count("ms_ticked_in_mode_A", a.ticked_ms);
    st.outcome(if a.blocked_ms == 0 { "never-blocked" } else if a.outputs.is_empty() { "blocked/no-output" } else { "blocked/with-output" });
    st.distinct_traces.insert(crate::sim::hash_str(&format!("{:?}", b.outputs)));
    if a.outputs != b.outputs {
        let idx = a.outputs.iter().zip(b.outputs.iter()).position(|(x, y)| x != y).unwrap_or(a.outputs.len().min(b.outputs.len()));
        let cls = match (a.outputs.get(idx), b.outputs.get(idx)) {
            (Some(x), Some(y)) if x.1 == y.1 => "postponed-or-early",
            (None, Some(_)) => "missing-when-blocking",
            (Some(_), None) => "extra-when-blocking",
            _ => "different-output",
        };
        let f = |v: &Vec<(u64, String)>| v.iter().map(|(t, e)| format!("{t}:{}", e.trim_start_matches("out:"))).collect::<Vec<_>>().join(" ");
        return Some((format!("diff::{cls}"), format!("blocking loop [{}] vs always-ticking loop [{}]", f(&a.outputs), f(&b.outputs))));
    }
    if let Some((ms, what)) = b.quiesce {
        return Some(("quiescence".into(), format!("a tick taken at ms {ms} in a state where blocking was allowed emitted {what}")));
    }
    if let Some((ms, what)) = b.stutter {
        let field = what.split('=').next().unwrap_or("").to_string();
        return Some((format!("stutter::{field}"), format!("a tick taken at ms {ms} in a state where blocking was allowed changed the state: {what}")));
    }
    None
}

fn run_job(tier: Tier, idx: usize, st: &mut Stats) {
    let j = &jobs(tier)[idx];
    if let Some(ci) = j.conf {
        let t = &super::conform::TRACES[ci];
        let r = super::conform::check_trace(t);
        st.evaluations += r.attempts as u64;
        st.count("conformance_traces", 1);
        st.count("conformance_attempts", r.attempts as u64);
        if r.ok {
            st.count("conformance_ok", 1);
            st.validated += 1;
            st.outcome("conformance-ok");
            st.sample(json!({"conformance": t.tag, "attempts": r.attempts, "real_loop_ticks": r.real_ticks, "twin_ticks": r.twin_ticks, "wall_ms": r.wall_ms}));
        } else {
            st.violation(Violation {
                property: "C07".into(),
                signature: format!("conformance::{}", t.tag),
                what: format!("conformance/{}: the real start_processing_loop (real thread, channel and clock; 3 attempts) disagrees with the loop twin: {}", t.tag, r.detail),
                detail: json!({"kind": "conformance", "cfg": t.cfg, "history": t.tag, "trace": ci}),
            });
        }
        return;
    }
    if j.first == 0 {
        if Sim::new(&j.cfg).is_err() {
            st.configs_rejected += 1;
            st.outcome("rejected");
            return;
        }
        st.configs_accepted += 1;
    } else if Sim::new(&j.cfg).is_err() {
        return;
    }
    let mut found: Vec<Violation> = vec![];
    let mut n = 0u64;
    let mut handle = |steps: &[Step], st: &mut Stats| {
        if found.len() >= 3 {
            return;
        }
        n += 1;
        let mut full = j.prefix.clone();
        full.extend_from_slice(steps);
        full.push(Step::G(60));
        if let Some((sig, what)) = check(&j.cfg, &full, st) {
            let sig = format!("{}::{}", j.tag, sig);
            if !found.iter().any(|f| f.signature == sig) {
                found.push(Violation {
                    property: "C07".into(),
                    signature: sig,
                    what: format!("{} [{}]: {}", j.tag, steps_to_string(&full), what),
                    detail: json!({"kind": "loop", "cfg": j.cfg, "history": steps_to_string(&full)}),
                });
            }
        }
    };
    if j.long {
        let keys = [kc("a"), kc("b"), kc("c")];
        for gap in [1100u32, 70000] {
            for k1 in 0..3 {
                for k2 in 0..3 {
                    let steps = vec![Step::E(true, keys[k1]), Step::G(gap), Step::E(false, keys[k1]), Step::G(3), Step::E(true, keys[k2]), Step::G(gap), Step::E(false, keys[k2])];
                    handle(&steps, st);
                }
            }
        }
    } else {
        for_each_steps(j.depth, j.first, &[1, 7, 40], &mut |s| handle(s, st));
    }
    if idx % 131 == 0 {
        st.sample(json!({"tag": j.tag, "cfg": j.cfg, "depth": j.depth, "histories": n}));
    }
    for v in found {
        st.violation(v);
    }
}

fn replay(d: &serde_json::Value) -> Vec<Violation> {
    if d.get("kind").and_then(|x| x.as_str()) == Some("conformance") {
        let ci = d.get("trace").and_then(|x| x.as_u64()).unwrap_or(0) as usize;
        let t = &super::conform::TRACES[ci.min(super::conform::TRACES.len() - 1)];
        let r = super::conform::check_trace(t);
        return if r.ok { vec![] } else { vec![Violation { property: "C07".into(), signature: format!("conformance::{}", t.tag), what: r.detail, detail: d.clone() }] };
    }
    let cfg = d.get("cfg").and_then(|x| x.as_str()).unwrap_or("");
    let steps = steps_parse(d.get("history").and_then(|x| x.as_str()).unwrap_or(""));
    let mut st = Stats::default();
    match check(cfg, &steps, &mut st) {
        Some((sig, what)) => vec![Violation { property: "C07".into(), signature: sig, what, detail: d.clone() }],
        None => vec![],
    }
}
