//! C13 — global overrides substitute exactly the configured combination, then let go.
use super::*;
use crate::explore::*;
use crate::par::{PropDef, Stats, Tier};
use crate::sim::{kc, Ev, Out, Sim};
use kanata_keyberon::key_code::KeyCode;
use kanata_parser::cfg::{Override, OverrideStates, Overrides};
use kanata_parser::keys::OsCode;
use serde_json::json;
use std::collections::VecDeque;
use std::sync::OnceLock;

pub fn def() -> PropDef {
    PropDef {
        id: "C13",
        level: "model_checking",
        n_jobs,
        job_level,
        run_job,
        replay,
        rule: "pure part (exhaustive): ALL override tables of 1 override (input mods subset of {lctl,lsft,ralt}, input key in {a,b}, output mods subset of {lsft,rctl}, output key in {b,c}: 128) and ALL ordered pairs (16384), built with the real Override::try_new/Overrides::new, x ALL lists of <= 4 distinct active keys from the 8-key universe {lctl,lsft,ralt,rctl,a,b,c,d} in every order (2081 lists) -> real Overrides::override_keys vs the reference substitution (for each non-modifier key in list order, among its overrides whose modifiers all precede it, the one with most modifiers (first on ties) applies; inputs removed, outputs appended once). Mask matrix: ALL 256 required-modifier sets x ALL 256 held-modifier sets over the eight modifiers (65536 lists) for a single override. Strict where all modifiers precede the non-modifier keys; otherwise either the in-order reading or the all-modifiers reading is accepted. Pipeline part: the 128 single tables + pairs that share their input key (nested / disjoint / equal modifier sets) as defoverrides configs x override-release-on-activation {no,yes} x ALL physically consistent histories of D steps over press/release of {lsft,lctl,a,b} + tick 1 (quick D=5), compared event by event with the pipeline model (layered list + reference substitution + eager erasure of the overridden key); at the end nothing is held.",
        assumptions: &["modifier universe limited to 4 of the 8 modifiers in the exhaustive part (the mask code is uniform over the 8 bits; all 256x256 single-override modifier subsets are checked on a fixed key list in thorough)", "pipeline histories use keys mapped to themselves"],
        required_level,
        min_outcomes: 3,
    }
}

const UNIV: [&str; 8] = ["lctl", "lsft", "ralt", "rctl", "a", "b", "c", "d"];
fn osc(n: &str) -> OsCode {
    kanata_parser::keys::str_to_oscode(n).unwrap()
}
fn is_mod(n: &str) -> bool {
    matches!(n, "lctl" | "lsft" | "lalt" | "lmet" | "rctl" | "rsft" | "ralt" | "rmet")
}

#[derive(Clone, Debug, PartialEq)]
pub struct Ov {
    in_mods: Vec<&'static str>,
    in_key: &'static str,
    out_mods: Vec<&'static str>,
    out_key: &'static str,
}

impl Ov {
    fn text(&self) -> String {
        format!("({} {}) ({} {})", self.in_mods.join(" "), self.in_key, self.out_mods.join(" "), self.out_key)
    }
    fn real(&self) -> Override {
        let mut i: Vec<OsCode> = self.in_mods.iter().map(|m| osc(m)).collect();
        i.push(osc(self.in_key));
        let mut o: Vec<OsCode> = self.out_mods.iter().map(|m| osc(m)).collect();
        o.push(osc(self.out_key));
        Override::try_new(&i, &o).expect("valid override")
    }
}

fn all_single() -> Vec<Ov> {
    let imods = ["lctl", "lsft", "ralt"];
    let omods = ["lsft", "rctl"];
    let mut v = vec![];
    for im in 0..8u8 {
        for ik in ["a", "b"] {
            for om in 0..4u8 {
                for ok in ["b", "c"] {
                    v.push(Ov {
                        in_mods: (0..3).filter(|b| im & (1 << b) != 0).map(|b| imods[b]).collect(),
                        in_key: ik,
                        out_mods: (0..2).filter(|b| om & (1 << b) != 0).map(|b| omods[b]).collect(),
                        out_key: ok,
                    });
                }
            }
        }
    }
    v
}

/// Reference substitution. `all_mods_seen`: the alternative reading where every modifier in the
/// list counts regardless of its position.
pub fn reference(table: &[Ov], list: &[&'static str], all_mods_seen: bool) -> (Vec<&'static str>, Vec<&'static str>) {
    let mut seen: Vec<&str> = if all_mods_seen { list.iter().filter(|k| is_mod(k)).copied().collect() } else { vec![] };
    let mut add: Vec<&'static str> = vec![];
    let mut remove: Vec<&'static str> = vec![];
    for k in list {
        if is_mod(k) {
            if !seen.contains(k) {
                seen.push(k);
            }
            continue;
        }
        let mut best: Option<&Ov> = None;
        for o in table.iter().filter(|o| o.in_key == *k && o.in_mods.iter().all(|m| seen.contains(m))) {
            if best.map(|b| o.in_mods.len() > b.in_mods.len()).unwrap_or(true) {
                best = Some(o);
            }
        }
        if let Some(o) = best {
            for m in o.out_mods.iter().chain(std::iter::once(&o.out_key)) {
                if !add.contains(m) {
                    add.push(m);
                }
            }
            for m in o.in_mods.iter().chain(std::iter::once(&o.in_key)) {
                if !remove.contains(m) {
                    remove.push(m);
                }
            }
        }
    }
    let mut out: Vec<&'static str> = list.iter().filter(|k| !remove.contains(k)).copied().collect();
    out.extend(add.iter().copied());
    let removed_nonmods = remove.into_iter().filter(|k| !is_mod(k)).collect();
    (out, removed_nonmods)
}

fn all_lists() -> &'static Vec<Vec<&'static str>> {
    static L: OnceLock<Vec<Vec<&'static str>>> = OnceLock::new();
    L.get_or_init(|| {
        let mut out: Vec<Vec<&'static str>> = vec![vec![]];
        fn rec(cur: &mut Vec<&'static str>, out: &mut Vec<Vec<&'static str>>) {
            if cur.len() == 4 {
                return;
            }
            for k in UNIV {
                if !cur.contains(&k) {
                    cur.push(k);
                    out.push(cur.clone());
                    rec(cur, out);
                    cur.pop();
                }
            }
        }
        rec(&mut vec![], &mut out);
        out
    })
}

fn kc_of(n: &str) -> KeyCode {
    osc(n).into()
}

fn pure_check(table: &[Ov], st: &mut Stats) -> Option<Violation> {
    let real = Overrides::new(&table.iter().map(|o| o.real()).collect::<Vec<_>>());
    let mut states = OverrideStates::new();
    for list in all_lists() {
        let mut kcs: Vec<KeyCode> = list.iter().map(|k| kc_of(k)).collect();
        real.override_keys(&mut kcs, &mut states);
        st.evaluations += 1;
        let (want, _) = reference(table, list, false);
        let want_kc: Vec<KeyCode> = want.iter().map(|k| kc_of(k)).collect();
        let mods_first = {
            let first_nonmod = list.iter().position(|k| !is_mod(k)).unwrap_or(list.len());
            list[first_nonmod..].iter().all(|k| !is_mod(k))
        };
        let ok = if kcs == want_kc {
            true
        } else if !mods_first {
            let (alt, _) = reference(table, list, true);
            kcs == alt.iter().map(|k| kc_of(k)).collect::<Vec<_>>()
        } else {
            false
        };
        st.validated += 1;
        if !ok {
            let cls = if kcs.len() > want_kc.len() { "extra-keys" } else if kcs.len() < want_kc.len() { "missing-keys" } else { "wrong-keys" };
            return Some(Violation {
                property: "C13".into(),
                signature: format!("pure::{}::{}", table.len(), cls),
                what: format!("overrides [{}] on active list {:?}: real {:?}, reference {:?}", table.iter().map(|o| o.text()).collect::<Vec<_>>().join(" "), list, kcs, want_kc),
                detail: json!({"kind": "pure", "table": table.iter().map(|o| json!({"im": o.in_mods, "ik": o.in_key, "om": o.out_mods, "ok": o.out_key})).collect::<Vec<_>>(), "cfg": ""}),
            });
        }
    }
    None
}

// ---------------------------------------------------------------------------------------------
// pipeline model

const PKEYS: [&str; 4] = ["lsft", "lctl", "a", "b"];
fn out_name(k: &str) -> &'static str {
    match k {
        "lctl" => "LCtrl",
        "lsft" => "LShift",
        "ralt" => "RAlt",
        "rctl" => "RCtrl",
        "a" => "A",
        "b" => "B",
        "c" => "C",
        "d" => "D",
        _ => "?",
    }
}

struct PModel {
    table: Vec<Ov>,
    roa: bool,
    queue: VecDeque<(bool, &'static str)>,
    states: Vec<(&'static str, bool)>,
    prev: Vec<&'static str>,
    out: Vec<(u64, bool, &'static str)>,
    ticks: u64,
}

impl PModel {
    fn tick(&mut self) {
        if let Some((press, k)) = self.queue.pop_front() {
            if press {
                self.states.retain(|(_, marked)| !*marked);
                self.states.push((k, false));
            } else {
                self.states.retain(|(key, marked)| !*marked && *key != k);
            }
        }
        let list: Vec<&'static str> = self.states.iter().map(|(k, _)| *k).collect();
        let (cur, removed) = reference(&self.table, &list, false);
        for s in self.states.iter_mut() {
            if removed.contains(&s.0) {
                s.1 = true;
            }
        }
        if self.roa {
            self.states.retain(|(k, _)| !removed.contains(k));
        }
        for k in &self.prev {
            if !cur.contains(k) {
                self.out.push((self.ticks, false, out_name(k)));
            }
        }
        let mut pressed: Vec<&str> = vec![];
        for k in &cur {
            if !self.prev.contains(k) && !pressed.contains(k) {
                self.out.push((self.ticks, true, out_name(k)));
                pressed.push(k);
            }
        }
        self.prev = cur;
        self.ticks += 1;
    }
}

fn pipe_cfg(table: &[Ov], roa: bool) -> String {
    format!(
        "(defcfg override-release-on-activation {})\n(defsrc lsft lctl a b)\n(deflayer base lsft lctl a b)\n(defoverrides {})\n",
        if roa { "yes" } else { "no" },
        table.iter().map(|o| o.text()).collect::<Vec<_>>().join(" ")
    )
}

fn pipe_compare(table: &[Ov], roa: bool, cfg: &str, hist: &[Ev], first_new: usize, st: &mut Stats) -> Option<(String, String)> {
    let mut s = match Sim::new(cfg) {
        Ok(s) => s,
        Err(e) => return Some(("rejected".into(), e)),
    };
    st.evaluations += 1;
    let mut m = PModel { table: table.to_vec(), roa, queue: VecDeque::new(), states: vec![], prev: vec![], out: vec![], ticks: 0 };
    for (i, e) in hist.iter().enumerate() {
        if let Err(msg) = s.step(*e) {
            return Some((panic_signature(&msg), msg));
        }
        match *e {
            Ev::P(c) => m.queue.push_back((true, PKEYS.iter().find(|k| kc(k) == c).copied().unwrap())),
            Ev::R(c) => m.queue.push_back((false, PKEYS.iter().find(|k| kc(k) == c).copied().unwrap())),
            Ev::T(n) => {
                for _ in 0..n {
                    m.tick()
                }
            }
            _ => {}
        }
        if i >= first_new {
            st.transitions += 1;
            st.states.insert(s.digest());
        }
    }
    st.validated += 1;
    let tr = s.trace();
    let held = crate::sim::os_down_set(&tr);
    if !held.is_empty() {
        return Some(("stuck".into(), format!("held after everything was released: {held:?}; trace [{}]", crate::sim::trace_to_string(&tr))));
    }
    let real: Vec<(u64, bool, String)> = tr
        .iter()
        .filter_map(|(t, o)| match o {
            Out::Down(k) => Some((*t, true, k.clone())),
            Out::Up(k) => Some((*t, false, k.clone())),
            _ => None,
        })
        .collect();
    let model: Vec<(u64, bool, String)> = m.out.iter().map(|(t, d, k)| (*t, *d, k.to_string())).collect();
    st.outcome(match real.len() {
        0 => "agree/no-output",
        1..=4 => "agree/1-4",
        _ => "agree/5+",
    });
    st.distinct_traces.insert(crate::sim::hash_str(&format!("{real:?}")));
    // compare as per-tick multisets (the intra-tick order of independent releases is not fixed by the property)
    let norm = |v: &Vec<(u64, bool, String)>| {
        let mut v = v.clone();
        v.sort();
        v
    };
    if norm(&real) != norm(&model) {
        let f = |v: &Vec<(u64, bool, String)>| v.iter().map(|(t, d, k)| format!("{}:{}{}", t, if *d { "↓" } else { "↑" }, k)).collect::<Vec<_>>().join(" ");
        let real_keys: Vec<&String> = real.iter().filter(|x| x.1).map(|x| &x.2).collect();
        let model_keys: Vec<&String> = model.iter().filter(|x| x.1).map(|x| &x.2).collect();
        let cls = if real_keys != model_keys { "different-keys" } else { "different-timing" };
        return Some((cls.to_string(), format!("real [{}] vs model [{}]", f(&real), f(&model))));
    }
    None
}

// ---------------------------------------------------------------------------------------------

enum Job {
    PureSingles,
    PurePairs { first: usize },
    PureAllMasks,
    PureMaskMatrix,
    Pipe { table: Vec<Ov>, roa: bool, depth: usize },
}

fn pipe_tables() -> Vec<Vec<Ov>> {
    let singles = all_single();
    let mut v: Vec<Vec<Ov>> = singles.iter().map(|o| vec![o.clone()]).collect();
    // pairs sharing the input key, with nested / disjoint / equal modifier sets; outputs fixed to two
    // distinguishable shapes
    let msets: [&[&'static str]; 4] = [&[], &["lsft"], &["lctl"], &["lctl", "lsft"]];
    for ik in ["a", "b"] {
        for m1 in msets {
            for m2 in msets {
                let o1 = Ov { in_mods: m1.to_vec(), in_key: ik, out_mods: vec![], out_key: "c" };
                let o2 = Ov { in_mods: m2.to_vec(), in_key: ik, out_mods: vec!["rctl"], out_key: "d" };
                v.push(vec![o1, o2]);
            }
        }
    }
    // two different input keys sharing a modifier
    v.push(vec![Ov { in_mods: vec!["lsft"], in_key: "a", out_mods: vec![], out_key: "c" }, Ov { in_mods: vec!["lsft"], in_key: "b", out_mods: vec!["lsft"], out_key: "d" }]);
    v.push(vec![Ov { in_mods: vec!["lsft"], in_key: "a", out_mods: vec![], out_key: "b" }, Ov { in_mods: vec![], in_key: "b", out_mods: vec![], out_key: "c" }]);
    v
}

fn jobs(tier: Tier) -> &'static Vec<(u32, Job)> {
    static Q: OnceLock<Vec<(u32, Job)>> = OnceLock::new();
    static T: OnceLock<Vec<(u32, Job)>> = OnceLock::new();
    let cell = match tier {
        Tier::Quick => &Q,
        Tier::Thorough => &T,
    };
    cell.get_or_init(|| {
        let mut v = vec![(0, Job::PureSingles)];
        for first in 0..128 {
            v.push((0, Job::PurePairs { first }));
        }
        let levels: &[(u32, usize)] = match tier {
            Tier::Quick => &[(0, 5)],
            Tier::Thorough => &[(0, 5), (1, 6), (2, 7)],
        };
        for (lvl, d) in levels.iter().copied() {
            for t in pipe_tables() {
                for roa in [false, true] {
                    v.push((lvl, Job::Pipe { table: t.clone(), roa, depth: d }));
                }
            }
        }
        if tier == Tier::Thorough {
            v.push((0, Job::PureAllMasks));
        }
        v.push((0, Job::PureMaskMatrix));
        v.sort_by_key(|x| x.0);
        v
    })
}

fn n_jobs(t: Tier) -> usize {
    jobs(t).len()
}
fn job_level(t: Tier, i: usize) -> u32 {
    jobs(t)[i].0
}
fn required_level(_t: Tier) -> u32 {
    0
}

fn run_job(tier: Tier, idx: usize, st: &mut Stats) {
    match &jobs(tier)[idx].1 {
        Job::PureSingles => {
            for o in all_single() {
                st.configs_accepted += 1;
                if let Some(v) = pure_check(&[o], st) {
                    st.violation(v);
                }
            }
            st.outcome("pure-singles");
            st.sample(json!({"family": "pure singles", "tables": 128, "lists": all_lists().len()}));
        }
        Job::PurePairs { first } => {
            let s = all_single();
            for o2 in &s {
                st.configs_accepted += 1;
                if let Some(v) = pure_check(&[s[*first].clone(), o2.clone()], st) {
                    st.violation(v);
                    break;
                }
            }
            st.outcome("pure-pairs");
        }
        Job::PureMaskMatrix => {
            // ALL 256 input-modifier sets of a single override (a -> b) x ALL 256 sets of held modifiers
            // (held in the fixed order below, then a): decides the modifier-mask matching for every pair
            // (required set, held set), in particular that every one of the eight modifiers is told apart
            let mods8 = ["lctl", "lsft", "lalt", "lmet", "rctl", "rsft", "ralt", "rmet"];
            for im in 0..256u32 {
                let o = Ov { in_mods: (0..8).filter(|b| im & (1 << b) != 0).map(|b| mods8[b]).collect(), in_key: "a", out_mods: vec![], out_key: "b" };
                let real = Overrides::new(&[o.real()]);
                let mut states = OverrideStates::new();
                for held in 0..256u32 {
                    let mut list: Vec<&'static str> = (0..8).filter(|b| held & (1 << b) != 0).map(|b| mods8[b]).collect();
                    list.push("a");
                    let mut kcs: Vec<KeyCode> = list.iter().map(|k| kc_of(k)).collect();
                    real.override_keys(&mut kcs, &mut states);
                    let (want, _) = reference(&[o.clone()], &list, false);
                    st.evaluations += 1;
                    st.validated += 1;
                    if kcs != want.iter().map(|k| kc_of(k)).collect::<Vec<_>>() {
                        st.violation(Violation { property: "C13".into(), signature: "pure::maskmatrix".into(), what: format!("override {} on {:?}: real {:?} want {:?}", o.text(), list, kcs, want), detail: json!({"kind": "pure", "family": "maskmatrix", "cfg": ""}) });
                        return;
                    }
                }
            }
            st.outcome("pure-maskmatrix");
        }
        Job::PureAllMasks => {
            // all 256 x 256 (input mods, output mods) single overrides on key a -> b, lists: all 8 mods held (in a fixed order) + a, and each single-mod-missing list
            let mods8 = ["lctl", "lsft", "lalt", "lmet", "rctl", "rsft", "ralt", "rmet"];
            for im in 0..256u32 {
                for om in 0..256u32 {
                    let o = Ov {
                        in_mods: (0..8).filter(|b| im & (1 << b) != 0).map(|b| mods8[b]).collect(),
                        in_key: "a",
                        out_mods: (0..8).filter(|b| om & (1 << b) != 0).map(|b| mods8[b]).collect(),
                        out_key: "b",
                    };
                    let real = Overrides::new(&[o.real()]);
                    let mut states = OverrideStates::new();
                    for missing in 0..9usize {
                        let mut list: Vec<&'static str> = mods8.iter().enumerate().filter(|(i, _)| *i != missing).map(|(_, m)| *m).collect();
                        list.push("a");
                        let mut kcs: Vec<KeyCode> = list.iter().map(|k| kc_of(k)).collect();
                        real.override_keys(&mut kcs, &mut states);
                        let (want, _) = reference(&[o.clone()], &list, false);
                        st.evaluations += 1;
                        st.validated += 1;
                        if kcs != want.iter().map(|k| kc_of(k)).collect::<Vec<_>>() {
                            st.violation(Violation { property: "C13".into(), signature: "pure::allmasks".into(), what: format!("override {} on {:?}: real {:?} want {:?}", o.text(), list, kcs, want), detail: json!({"kind": "pure", "cfg": ""}) });
                            return;
                        }
                    }
                }
            }
            st.outcome("pure-allmasks");
        }
        Job::Pipe { table, roa, depth } => {
            let cfg = pipe_cfg(table, *roa);
            if let Err(e) = Sim::new(&cfg) {
                st.configs_rejected += 1;
                st.outcome("rejected");
                if e.starts_with("PANIC") {
                    st.violation(Violation { property: "C13".into(), signature: panic_signature(&e), what: e, detail: json!({"kind": "history", "cfg": cfg, "history": ""}) });
                }
                return;
            }
            st.configs_accepted += 1;
            let mut alpha = vec![];
            for k in PKEYS {
                alpha.push(Ev::P(kc(k)));
                alpha.push(Ev::R(kc(k)));
            }
            alpha.push(Ev::T(1));
            let mut found: Vec<Violation> = vec![];
            for_each_history(&alpha, *depth, Consistency::Physical, &[], |h, first_new, down| {
                if found.len() >= 2 {
                    return;
                }
                let mut full = h.to_vec();
                full.push(Ev::T(1));
                for e in completion(down, false) {
                    full.push(e);
                    full.push(Ev::T(1));
                }
                full.push(Ev::T(8));
                if let Some((cls, what)) = pipe_compare(table, *roa, &cfg, &full, first_new, st) {
                    let sig = format!("pipe::{}::{}", if *roa { "roa" } else { "noroa" }, cls);
                    if !found.iter().any(|f| f.signature == sig) {
                        found.push(mk_violation("C13", sig, format!("[{}] roa={} [{}]: {}", table.iter().map(|o| o.text()).collect::<Vec<_>>().join(" "), roa, crate::sim::hist_to_string(&full), what), "history", &cfg, &full, json!({"job": idx, "tier": tier.name()})));
                    }
                }
            });
            if idx % 37 == 0 {
                st.sample(json!({"family": "pipeline", "cfg": cfg, "depth": depth}));
            }
            for v in found {
                st.violation(v);
            }
        }
    }
}

fn replay(d: &serde_json::Value) -> Vec<Violation> {
    if d.get("kind").and_then(|x| x.as_str()) == Some("pure") {
        let mut st = Stats::default();
        let tier = Tier::Quick;
        let matrix = d.get("family").and_then(|x| x.as_str()) == Some("maskmatrix");
        for i in 0..n_jobs(tier) {
            if (!matrix && matches!(jobs(tier)[i].1, Job::PureSingles | Job::PurePairs { .. })) || (matrix && matches!(jobs(tier)[i].1, Job::PureMaskMatrix)) {
                run_job(tier, i, &mut st);
            }
            if !st.violations.is_empty() {
                break;
            }
        }
        return st.violations;
    }
    let Some((cfg, h)) = detail_cfg_hist(d) else { return vec![] };
    let idx = d.get("extra").and_then(|e| e.get("job")).and_then(|x| x.as_u64()).unwrap_or(0) as usize;
    let tier = Tier::parse(d.get("extra").and_then(|e| e.get("tier")).and_then(|x| x.as_str()).unwrap_or("quick"));
    if let Some((_, Job::Pipe { table, roa, .. })) = jobs(tier).get(idx) {
        let mut st = Stats::default();
        if let Some((cls, what)) = pipe_compare(table, *roa, &cfg, &h, 0, &mut st) {
            return vec![mk_violation("C13", format!("pipe::{}::{}", if *roa { "roa" } else { "noroa" }, cls), what, "history", &cfg, &h, json!({}))];
        }
    }
    vec![]
}
