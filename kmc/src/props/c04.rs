//! C04 — layered remapping fidelity: the real pipeline vs. the simple layered-keymap model.
use super::*;
use crate::explore::*;
use crate::par::{PropDef, Stats, Tier};
use crate::sim::{kc, Ev, Out, Sim};
use serde_json::json;
use std::collections::VecDeque;
use std::sync::OnceLock;

pub fn def() -> PropDef {
    PropDef {
        id: "C04",
        level: "model_checking",
        n_jobs,
        job_level,
        run_job,
        replay,
        rule: "configs: ALL 10^4 assignments of a 10-entry fragment menu {key, output chord, (multi mod key), (multi mod _), XX, _, use-defsrc, (layer-while-held other), (layer-switch other), (multi (release-key lctl) (release-layer other))} to 2 layers x 2 keys (defcfg variant rotated over {layer-stack,to-base-layer} x delegate-to-first-layer {no,yes} in quick and in thorough levels 0 and 2; all 4 variants in thorough level 1) + curated 3-4 layer configs (stacked held layers, transparent chains, nested _ in multi, nested multi (inner items act where the inner multi is written), release-key/layer across layers) x all 4 variants. Unmapped-key variants: a further key that is NOT in defsrc with process-unmapped-keys yes (must behave as mapped to itself on every layer) and with block-unmapped-keys yes (must produce nothing in every layer state): every sixth 2x2 config in quick, all in thorough, all curated configs (one step less deep). Histories: ALL physically consistent histories of D steps over {press/release of the mapped keys, tick 1, tick 2} (gaps 0,1,2), then released and settled. Oracle: reference model LayeredKeymap (FIFO queue, one event per tick; press = search held layers newest to oldest, default layer, optional first layer, defsrc, continuing below a nested _; release removes what that coordinate put down; output = ordered diff of the key list per tick) compared with the real output trace event by event with tick stamps. states = distinct (real digest) ; traces_validated = executions compared.",
        assumptions: &[
            "fragment only: plain keys, output chords, multi, XX, _, use-defsrc, layer-while-held, layer-switch, release-key/layer",
            "fewer than 32 pending events (no queue overflow in this check)",
            "the model's intra-tick event order (releases in previous-list order, then presses in list order) is taken from the documented behaviour of handle_keystate_changes",
        ],
        required_level,
        min_outcomes: 2,
    }
}

// ------------------------------------------------------------------------------------------
// the reference model

#[derive(Clone, Debug, PartialEq)]
pub enum Act {
    Key(&'static str),
    Chord(Vec<&'static str>),
    Multi(Vec<Act>),
    NoOp,
    Trans,
    Src,
    LayerWhileHeld(usize),
    LayerSwitch(usize),
    ReleaseKey(&'static str),
    ReleaseLayer(usize),
}

#[derive(Clone, Debug, PartialEq)]
enum Held {
    Key(&'static str, bool), // name, clear_on_next_action
    Layer(usize),
}

pub struct Model {
    /// layers[l][k]
    pub layers: Vec<Vec<Act>>,
    /// defsrc key name (as output name) per key index
    pub src: Vec<&'static str>,
    pub v2: bool,
    pub delegate: bool,
    queue: VecDeque<(bool, usize)>,
    held: Vec<(usize, Held)>,
    default_layer: usize,
    prev: Vec<&'static str>,
    pub out: Vec<(u64, bool, &'static str)>, // (time, is_down, key)
    ticks: u64,
}

impl Model {
    pub fn new(layers: Vec<Vec<Act>>, src: Vec<&'static str>, v2: bool, delegate: bool) -> Self {
        Model { layers, src, v2, delegate, queue: VecDeque::new(), held: vec![], default_layer: 0, prev: vec![], out: vec![], ticks: 0 }
    }
    fn current_layer(&self) -> usize {
        self.held.iter().rev().find_map(|(_, h)| if let Held::Layer(l) = h { Some(*l) } else { None }).unwrap_or(self.default_layer)
    }
    fn order(&self) -> Vec<usize> {
        let cur = self.current_layer();
        if self.v2 {
            let mut v: Vec<usize> = self.held.iter().rev().filter_map(|(_, h)| if let Held::Layer(l) = h { Some(*l) } else { None }).collect();
            v.push(self.default_layer);
            if self.delegate && cur != 0 && self.default_layer != 0 {
                v.push(0);
            }
            v
        } else {
            let mut v = vec![cur];
            if self.delegate && cur != 0 {
                v.push(0);
            }
            v
        }
    }
    pub fn event(&mut self, press: bool, key: usize) {
        self.queue.push_back((press, key));
    }
    fn resolve<'a>(&'a self, key: usize, order: &mut std::slice::Iter<'_, usize>) -> Act {
        for l in order.by_ref() {
            match &self.layers[*l][key] {
                Act::Trans => continue,
                a => return a.clone(),
            }
        }
        Act::Key(self.src[key])
    }
    fn perform(&mut self, a: &Act, key: usize, order: &[usize], pos: usize) {
        // `pos` = how much of `order` has been consumed by the search that found `a`
        let (a, pos) = if *a == Act::Trans {
            let mut it = order[pos..].iter();
            let before = it.len();
            let r = self.resolve(key, &mut it);
            (r, pos + (before - it.len()))
        } else {
            (a.clone(), pos)
        };
        self.held.retain(|(_, h)| !matches!(h, Held::Key(_, true)));
        match a {
            Act::Key(k) => self.held.push((key, Held::Key(k, false))),
            Act::Chord(ks) => {
                for k in ks {
                    self.held.push((key, Held::Key(k, true)));
                }
            }
            Act::Multi(v) => {
                for s in &v {
                    self.perform(s, key, order, pos);
                }
            }
            Act::NoOp => {}
            Act::Trans => unreachable!(),
            Act::Src => {
                let k = self.src[key];
                // use-defsrc performs the defsrc action: a plain key
                self.held.retain(|(_, h)| !matches!(h, Held::Key(_, true)));
                self.held.push((key, Held::Key(k, false)));
            }
            Act::LayerWhileHeld(l) => self.held.push((key, Held::Layer(l))),
            Act::LayerSwitch(l) => self.default_layer = l,
            Act::ReleaseKey(k) => self.held.retain(|(_, h)| !matches!(h, Held::Key(n, _) if *n == k)),
            Act::ReleaseLayer(l) => self.held.retain(|(_, h)| !matches!(h, Held::Layer(n) if *n == l)),
        }
    }
    pub fn tick(&mut self) {
        if let Some((press, key)) = self.queue.pop_front() {
            if press {
                let order = self.order();
                self.perform(&Act::Trans, key, &order, 0);
            } else {
                self.held.retain(|(c, _)| *c != key);
            }
        }
        let cur: Vec<&'static str> = self.held.iter().filter_map(|(_, h)| if let Held::Key(k, _) = h { Some(*k) } else { None }).collect();
        for k in &self.prev {
            if !cur.contains(k) {
                self.out.push((self.ticks, false, k));
            }
        }
        let mut newprev: Vec<&'static str> = self.prev.iter().filter(|k| cur.contains(k)).copied().collect();
        // (duplicates in prev are released once per occurrence in the real code only if absent from cur)
        let mut pressed: Vec<&'static str> = vec![];
        for k in &cur {
            if !self.prev.contains(k) && !pressed.contains(k) {
                self.out.push((self.ticks, true, k));
                pressed.push(k);
            }
        }
        newprev.clear();
        newprev.extend(cur.iter().copied());
        self.prev = newprev;
        self.ticks += 1;
    }
}

// ------------------------------------------------------------------------------------------
// configs

const KEYS: [&str; 4] = ["a", "b", "c", "d"];
const SRC_NAMES: [&str; 4] = ["A", "B", "C", "D"];

/// (config text, model action) for menu entry `m` on layer `l` of an `nl`-layer config.
fn menu(m: usize, l: usize, nl: usize) -> (String, Act) {
    let (k, kn): (&str, &'static str) = [("x", "X"), ("y", "Y"), ("z", "Z"), ("w", "W")][l % 4];
    let other = (l + 1) % nl;
    let lname = |i: usize| format!("l{i}");
    match m {
        0 => (k.to_string(), Act::Key(kn)),
        1 => (format!("S-{k}"), Act::Chord(vec!["LShift", kn])),
        2 => (format!("(multi lctl {k})"), Act::Multi(vec![Act::Key("LCtrl"), Act::Key(kn)])),
        3 => ("(multi lalt _)".to_string(), Act::Multi(vec![Act::Key("LAlt"), Act::Trans])),
        4 => ("XX".to_string(), Act::NoOp),
        5 => ("_".to_string(), Act::Trans),
        6 => ("use-defsrc".to_string(), Act::Src),
        7 => (format!("(layer-while-held {})", lname(other)), Act::LayerWhileHeld(other)),
        8 => (format!("(layer-switch {})", lname(other)), Act::LayerSwitch(other)),
        _ => (format!("(multi (release-key lctl) (release-layer {}))", lname(other)), Act::Multi(vec![Act::ReleaseKey("LCtrl"), Act::ReleaseLayer(other)])),
    }
}

#[derive(Clone)]
struct CfgSpec {
    tag: String,
    nkeys: usize,
    /// cells[l][k] = menu index, or custom (text, Act)
    cells: Vec<Vec<(String, Act)>>,
    v2: bool,
    delegate: bool,
    /// 0 = every key is in defsrc; 1 = one further key (KEYS[nkeys]) is NOT in defsrc and
    /// process-unmapped-keys is on (it must behave as mapped to itself on every layer);
    /// 2 = additionally block-unmapped-keys: it must produce nothing, whatever the layer state
    unmapped: u8,
}

impl CfgSpec {
    fn n_input_keys(&self) -> usize {
        self.nkeys + if self.unmapped > 0 { 1 } else { 0 }
    }
    fn text(&self) -> String {
        let mut s = format!(
            "(defcfg transparent-key-resolution {} delegate-to-first-layer {}{})\n(defsrc",
            if self.v2 { "layer-stack" } else { "to-base-layer" },
            if self.delegate { "yes" } else { "no" },
            match self.unmapped {
                0 => "",
                1 => " process-unmapped-keys yes",
                _ => " process-unmapped-keys yes block-unmapped-keys yes",
            }
        );
        for k in &KEYS[..self.nkeys] {
            s += &format!(" {k}");
        }
        s += ")\n";
        for (l, row) in self.cells.iter().enumerate() {
            s += &format!("(deflayer l{l}");
            for (t, _) in row {
                s += &format!(" {t}");
            }
            s += ")\n";
        }
        s
    }
    fn model(&self) -> Model {
        let extra = match self.unmapped {
            0 => None,
            1 => Some(Act::Trans),
            _ => Some(Act::NoOp),
        };
        Model::new(
            self.cells.iter().map(|r| r.iter().map(|(_, a)| a.clone()).chain(extra.clone()).collect()).collect(),
            SRC_NAMES[..self.n_input_keys()].to_vec(),
            self.v2,
            self.delegate,
        )
    }
}

fn curated() -> Vec<CfgSpec> {
    let mut v = vec![];
    let m = |mi: usize, l: usize, nl: usize| menu(mi, l, nl);
    let lwh = |t: usize| (format!("(layer-while-held l{t})"), Act::LayerWhileHeld(t));
    let lsw = |t: usize| (format!("(layer-switch l{t})"), Act::LayerSwitch(t));
    let tr = || ("_".to_string(), Act::Trans);
    let shapes: Vec<(&str, Vec<Vec<(String, Act)>>)> = vec![
        ("stacked-held", vec![vec![lwh(1), lwh(2), m(0, 0, 3)], vec![tr(), lwh(2), m(0, 1, 3)], vec![tr(), tr(), tr()]]),
        ("stacked-held-rev", vec![vec![lwh(2), lwh(1), m(0, 0, 3)], vec![tr(), tr(), m(0, 1, 3)], vec![lwh(1), tr(), m(3, 2, 3)]]),
        ("trans-chain", vec![vec![lwh(1), lsw(2), m(2, 0, 3)], vec![tr(), lwh(2), tr()], vec![lwh(1), lsw(0), tr()]]),
        ("switch-then-hold", vec![vec![lsw(1), lwh(2), m(0, 0, 3)], vec![lsw(0), lwh(2), tr()], vec![tr(), tr(), m(3, 2, 3)]]),
        ("held-base-from-held", vec![vec![lwh(1), tr(), m(0, 0, 2)], vec![tr(), lwh(0), m(0, 1, 2)]]),
        ("release-layer-across", vec![vec![lwh(1), lwh(2), m(1, 0, 3)], vec![tr(), m(9, 1, 3), m(0, 1, 3)], vec![m(9, 2, 3), tr(), m(6, 2, 3)]]),
        ("four-layers", vec![vec![lwh(1), lwh(2), m(0, 0, 4)], vec![lwh(3), tr(), tr()], vec![tr(), lwh(3), m(3, 2, 4)], vec![tr(), tr(), m(3, 3, 4)]]),
        ("nested-trans-multi", vec![vec![lwh(1), m(3, 0, 2), m(2, 0, 2)], vec![tr(), m(3, 1, 2), m(3, 1, 2)]]),
        // nested multi (the form an alias holding a multi takes): items act in WRITTEN order, the inner items where the inner multi stands
        ("nested-multi", vec![
            vec![lwh(1), ("(multi (multi lctl lsft) x)".to_string(), Act::Multi(vec![Act::Key("LCtrl"), Act::Key("LShift"), Act::Key("X")])), ("(multi lalt (multi lctl x) y)".to_string(), Act::Multi(vec![Act::Key("LAlt"), Act::Key("LCtrl"), Act::Key("X"), Act::Key("Y")]))],
            vec![tr(), ("(multi (multi _ lsft) lalt)".to_string(), Act::Multi(vec![Act::Trans, Act::Key("LShift"), Act::Key("LAlt")])), ("(multi (multi lsft (multi _ z)) w)".to_string(), Act::Multi(vec![Act::Key("LShift"), Act::Trans, Act::Key("Z"), Act::Key("W")]))],
        ]),
        ("switch-delegate", vec![vec![lsw(1), m(0, 0, 3), m(2, 0, 3)], vec![lsw(2), tr(), m(3, 1, 3)], vec![lsw(0), tr(), tr()]]),
        ("chords-then-keys", vec![vec![m(1, 0, 2), m(1, 1, 2), lwh(1)], vec![m(1, 1, 2), tr(), tr()]]),
    ];
    for (tag, cells) in shapes {
        for v2 in [true, false] {
            for delegate in [false, true] {
                v.push(CfgSpec { tag: format!("curated/{tag}/{}{}", if v2 { "stack" } else { "base" }, if delegate { "+deleg" } else { "" }), nkeys: 3, cells: cells.clone(), v2, delegate, unmapped: 0 });
                for unmapped in [1u8, 2] {
                    v.push(CfgSpec { tag: format!("curated/{tag}/{}{}/unmapped{unmapped}", if v2 { "stack" } else { "base" }, if delegate { "+deleg" } else { "" }), nkeys: 3, cells: cells.clone(), v2, delegate, unmapped });
                }
            }
        }
    }
    v
}

struct Job {
    spec: CfgSpec,
    depth: usize,
    level: u32,
}

fn jobs(tier: Tier) -> &'static Vec<Job> {
    static Q: OnceLock<Vec<Job>> = OnceLock::new();
    static T: OnceLock<Vec<Job>> = OnceLock::new();
    let cell = match tier {
        Tier::Quick => &Q,
        Tier::Thorough => &T,
    };
    cell.get_or_init(|| {
        let mut v = vec![];
        let levels: &[(u32, usize, usize, bool)] = match tier {
            Tier::Quick => &[(0, 4, 6, false)],
            // level 0: one step deeper than quick with the same variant rotation; level 1: all defcfg
            // and unmapped-key variants of every config; level 2: two steps deeper (rotation). Levels
            // beyond 0 are optional under the deadline and reported as completed / capped.
            Tier::Thorough => &[(0, 5, 7, false), (1, 5, 7, true), (2, 6, 8, false)],
        };
        for (lvl, d_small, d_cur, all_variants) in levels.iter().copied() {
            let mut ci = 0usize;
            for m00 in 0..10 {
                for m01 in 0..10 {
                    for m10 in 0..10 {
                        for m11 in 0..10 {
                            let cells = vec![vec![menu(m00, 0, 2), menu(m01, 0, 2)], vec![menu(m10, 1, 2), menu(m11, 1, 2)]];
                            let variants: Vec<(bool, bool)> = if all_variants { vec![(true, false), (true, true), (false, false), (false, true)] } else { vec![[(true, false), (true, true), (false, false), (false, true)][ci % 4]] };
                            for (v2, delegate) in variants {
                                v.push(Job { spec: CfgSpec { tag: format!("2x2/{m00}{m01}{m10}{m11}"), nkeys: 2, cells: cells.clone(), v2, delegate, unmapped: 0 }, depth: d_small, level: lvl });
                                // a key outside defsrc: every third config in quick (rotating process / process+block), all in thorough
                                let um: Vec<u8> = if all_variants { vec![1, 2] } else if ci % 6 == 0 { vec![1 + ((ci / 6) % 2) as u8] } else { vec![] };
                                for unmapped in um {
                                    v.push(Job { spec: CfgSpec { tag: format!("2x2u{unmapped}/{m00}{m01}{m10}{m11}"), nkeys: 2, cells: cells.clone(), v2, delegate, unmapped }, depth: d_small, level: lvl });
                                }
                            }
                            ci += 1;
                        }
                    }
                }
            }
            for spec in curated() {
                // the variants with a key outside defsrc have a larger alphabet: one step less
                let depth = if spec.unmapped > 0 { d_cur - 1 } else { d_cur };
                v.push(Job { spec, depth, level: lvl });
            }
        }
        v
    })
}

fn n_jobs(t: Tier) -> usize {
    jobs(t).len()
}
fn job_level(t: Tier, i: usize) -> u32 {
    jobs(t)[i].level
}
fn required_level(_t: Tier) -> u32 {
    0
}

fn alphabet(nkeys: usize) -> Vec<Ev> {
    let mut v = vec![];
    for k in &KEYS[..nkeys] {
        v.push(Ev::P(kc(k)));
        v.push(Ev::R(kc(k)));
    }
    v.push(Ev::T(1));
    v.push(Ev::T(2));
    v
}

fn real_events(s: &Sim) -> Vec<(u64, bool, String)> {
    s.trace()
        .into_iter()
        .filter_map(|(t, o)| match o {
            Out::Down(k) => Some((t, true, k)),
            Out::Up(k) => Some((t, false, k)),
            _ => None,
        })
        .collect()
}

/// Runs real code and model in lock-step on `hist` (+ completion + settle); returns a description
/// of the first difference.
fn compare(spec: &CfgSpec, cfg: &str, hist: &[Ev], first_new: usize, st: &mut Stats) -> Option<(String, String)> {
    let mut s = match Sim::new(cfg) {
        Ok(s) => s,
        Err(e) => return Some(("rejected".into(), e.chars().take(200).collect())),
    };
    st.evaluations += 1;
    let mut m = spec.model();
    for (i, e) in hist.iter().enumerate() {
        if let Err(msg) = s.step(*e) {
            return Some((panic_signature(&msg), msg));
        }
        match *e {
            Ev::P(c) => m.event(true, KEYS.iter().position(|k| kc(k) == c).unwrap()),
            Ev::R(c) => m.event(false, KEYS.iter().position(|k| kc(k) == c).unwrap()),
            Ev::T(n) => {
                for _ in 0..n {
                    m.tick()
                }
            }
            _ => {}
        }
        if i >= first_new {
            st.transitions += 1;
            st.states.insert(s.digest());
        }
    }
    st.validated += 1;
    let real = real_events(&s);
    st.outcome(match real.len() {
        0 => "agree/no-output",
        1..=4 => "agree/1-4-events",
        _ => "agree/5+-events",
    });
    st.distinct_traces.insert(crate::sim::hash_str(&format!("{:?}", real)));
    let model: Vec<(u64, bool, String)> = m.out.iter().map(|(t, d, k)| (*t, *d, k.to_string())).collect();
    if real != model {
        let idx = real.iter().zip(model.iter()).position(|(a, b)| a != b).unwrap_or(real.len().min(model.len()));
        let f = |v: &Vec<(u64, bool, String)>| v.iter().map(|(t, d, k)| format!("{}:{}{}", t, if *d { "↓" } else { "↑" }, k)).collect::<Vec<_>>().join(" ");
        let cls = match (real.get(idx), model.get(idx)) {
            (Some(r), Some(mo)) if r.0 != mo.0 && r.1 == mo.1 && r.2 == mo.2 => "timing",
            (Some(r), Some(mo)) if r.2 != mo.2 => "wrong-key",
            (None, Some(_)) => "missing-output",
            (Some(_), None) => "extra-output",
            _ => "order",
        };
        return Some((cls.to_string(), format!("real [{}] vs model [{}] (first difference at event {idx})", f(&real), f(&model))));
    }
    None
}

fn run_job(tier: Tier, idx: usize, st: &mut Stats) {
    let j = &jobs(tier)[idx];
    let cfg = j.spec.text();
    if let Err(e) = Sim::new(&cfg) {
        st.configs_rejected += 1;
        st.outcome("rejected");
        if idx % 1000 == 0 {
            st.sample(json!({"rejected": e.chars().take(200).collect::<String>(), "cfg": cfg}));
        }
        return;
    }
    st.configs_accepted += 1;
    let alpha = alphabet(j.spec.n_input_keys());
    let mut found: Vec<Violation> = vec![];
    for_each_history(&alpha, j.depth, Consistency::Physical, &[], |h, first_new, down| {
        if found.len() >= 2 {
            return;
        }
        // completion: release in ascending order, one tick apart, then settle
        let mut full = h.to_vec();
        for e in completion(down, false) {
            full.push(e);
            full.push(Ev::T(1));
        }
        full.push(Ev::T(6));
        if let Some((cls, what)) = compare(&j.spec, &cfg, &full, first_new, st) {
            let sig = format!("{}::{}", j.spec.tag.split('/').next().unwrap_or(""), cls);
            if !found.iter().any(|f| f.signature == sig) {
                found.push(mk_violation("C04", sig, format!("{} [{}]: {}", j.spec.tag, crate::sim::hist_to_string(&full), what), "history", &cfg, &full, json!({"job": idx, "tier": tier.name()})));
            }
        }
    });
    if idx % 997 == 0 {
        st.sample(json!({"tag": j.spec.tag, "cfg": cfg, "depth": j.depth}));
    }
    for v in found {
        st.violation(v);
    }
}

fn replay(d: &serde_json::Value) -> Vec<Violation> {
    let Some((cfg, h)) = detail_cfg_hist(d) else { return vec![] };
    let idx = d.get("extra").and_then(|e| e.get("job")).and_then(|x| x.as_u64()).unwrap_or(0) as usize;
    let tier = Tier::parse(d.get("extra").and_then(|e| e.get("tier")).and_then(|x| x.as_str()).unwrap_or("quick"));
    let j = &jobs(tier)[idx.min(jobs(tier).len() - 1)];
    let mut st = Stats::default();
    match compare(&j.spec, &cfg, &h, 0, &mut st) {
        Some((cls, what)) => vec![mk_violation("C04", format!("{}::{}", j.spec.tag.split('/').next().unwrap_or(""), cls), what, "history", &cfg, &h, json!({}))],
        None => vec![],
    }
}
