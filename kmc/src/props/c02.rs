//! C02 — an accepted configuration never crashes or hangs event processing.
//! Exhaustive: (context-placement product of the action menu + numeric boundary variants) x
//! (all histories of <= D steps over an UNCONSTRAINED alphabet) + flood family.
use super::*;
use crate::cfggen::*;
use crate::explore::*;
use crate::par::{PropDef, Stats, Tier};
use crate::sim::{kc, Ev};
use serde_json::json;
use std::sync::OnceLock;
use std::time::Instant;

pub fn def() -> PropDef {
    PropDef {
        id: "C02",
        level: "model_checking",
        n_jobs,
        job_level,
        run_job,
        replay,
        rule: "configs = every action-menu entry (≈95 list/atom actions, scaled time constants) in a layer cell and in each of 15 nesting contexts (alias, virtual key, chord v1/v2 action, tap-dance/eager item, fork l/r, switch case, multi member, tap-hold tap/hold/timeout slot, one-shot body, macro item) + every numeric token of every entry replaced by 0/1/65535 + empty-list variants; parser-rejected texts are counted and dropped. For each accepted config: ALL histories of exactly D steps over the unconstrained alphabet {press,release,repeat of a,b (no physical-consistency filter), tap, tick 1, tick 7, vkey toggle/tap via TCP path} followed by an 80-tick settle; plus flood scenarios (17..129 presses / vkey taps without a tick). Oracle: no panic (dev-profile semantics: overflow + debug_assert panic), no step > 2 s. non-trivial = distinct (config, state digest) nodes; outcome classes = accepted/rejected/per-context.",
        assumptions: &[
            "dev-profile arithmetic (overflow-checks, debug-assertions) as in the pinned test-suite",
            "clipboard and cmd actions excluded (need OS services / feature off)",
            "nesting depth <= 2 contexts; histories <= D steps (D reported as completed_level)",
            "hang detection = 2 s per-step watchdog measured after the fact; a true infinite loop is caught by the parent deadline and reported as machinery failure, not attributed",
        ],
        required_level,
        min_outcomes: 3,
    }
}

struct Job {
    tag: String,
    cfg: String,
    depth: usize,
    kind: u8, // 0 = history exploration, 1 = flood
    level: u32,
}

const CONTEXTS: &[(&str, &str, &str, &str)] = &[
    // (tag, cell a, cell b, extra top-level); {A} = the action under test
    ("alias", "@al", "b", "(defalias al {A})"),
    ("vkey", "(on-press tap-vkey vz)", "(on-press toggle-vkey vz)", "(defvirtualkeys vz {A})"),
    ("chord1", "(chord g2 ka)", "(chord g2 kb)", "(defchords g2 5 (ka) {A} (kb) y (ka kb) {A})"),
    ("chord2", "a", "b", "(defchordsv2 (a b) {A} 5 all-released ())"),
    ("chord2-first", "{A}", "b", "(defchordsv2 (a b) {A} 5 first-release ())"),
    ("td", "(tap-dance 5 ({A} y))", "b", ""),
    ("td-eager", "(tap-dance-eager 5 ({A} y))", "b", ""),
    ("fork-l", "(fork {A} y (lsft))", "lsft", ""),
    ("fork-r", "(fork y {A} (b))", "b", ""),
    ("switch", "(switch () {A} fallthrough ((input real b)) {A} break)", "b", ""),
    ("multi", "(multi {A} lctl)", "b", ""),
    ("th-tap", "(tap-hold 5 5 {A} lsft)", "b", ""),
    ("th-hold", "(tap-hold-press 5 5 x {A})", "b", ""),
    ("th-timeout", "(tap-hold-release-timeout 5 5 x y {A})", "b", ""),
    ("oneshot", "(one-shot 8 {A})", "b", ""),
    ("macro", "(macro {A} 2 x)", "b", ""),
];

fn numeric_variants(text: &str) -> Vec<String> {
    // replace each all-digit token by each boundary value
    let mut toks: Vec<String> = vec![];
    let mut cur = String::new();
    for ch in text.chars() {
        if ch == '(' || ch == ')' || ch.is_whitespace() {
            if !cur.is_empty() {
                toks.push(std::mem::take(&mut cur));
            }
            toks.push(ch.to_string());
        } else {
            cur.push(ch);
        }
    }
    if !cur.is_empty() {
        toks.push(cur);
    }
    let mut out = vec![];
    for i in 0..toks.len() {
        if !toks[i].is_empty() && toks[i].chars().all(|c| c.is_ascii_digit()) {
            for b in ["0", "1", "65535"] {
                if toks[i] != b {
                    let mut t = toks.clone();
                    t[i] = b.to_string();
                    out.push(t.concat());
                }
            }
        }
    }
    out
}

const EMPTIES: &[&str] = &[
    "(tap-dance 5 ())",
    "(tap-dance-eager 5 ())",
    "(multi)",
    "(macro)",
    "(fork x y ())",
    "(switch)",
    "(unmod)",
    "(caps-word-custom 5 () ())",
    "(tap-hold-release-keys 5 5 x y ())",
    "(tap-hold-except-keys 5 5 x y ())",
    "(multi (dynamic-macro-record 1) (dynamic-macro-record 1))",
    "(multi (dynamic-macro-record 1) dynamic-macro-record-stop)",
    "(multi (dynamic-macro-record 1) (dynamic-macro-play 1))",
    "(multi (sequence 5) (sequence 5))",
    "(multi rpt rpt-any)",
    "(macro-repeat 1)",
    "(macro-repeat (unicode a))",
    "(sequence 0)",
    "(sequence 1)",
    "(hold-for-duration 0 v1)",
    "(on-idle 0 tap-vkey v1)",
    "(multi (on-press press-vkey v1) (hold-for-duration 3 v1) (on-idle 2 toggle-vkey v1))",
    "(multi (layer-while-held nav) (layer-switch nav) (release-layer nav))",
    "(release-key x)",
    "(release-layer base)",
    "(multi mwhu mwhd mwhl mwhr)",
    "(multi (movemouse-up 1 1) (movemouse-down 1 1) (movemouse-accel-up 1 1 1 2))",
    "(movemouse-accel-up 1 0 1 1)",
    "(multi (mwheel-up 1 1) (mwheel-down 1 65535))",
    "(arbitrary-code 0)",
    "(arbitrary-code 767)",
    "(switch ((key-timing 8 lt 65535)) x break ((key-history a 8)) y fallthrough ((input-history real a 8)) z break)",
    "(switch () x fallthrough () y fallthrough () z fallthrough () x fallthrough () y fallthrough () z fallthrough () x fallthrough () y fallthrough () z fallthrough () x break)",
];

fn jobs(tier: Tier) -> &'static Vec<Job> {
    static Q: OnceLock<Vec<Job>> = OnceLock::new();
    static T: OnceLock<Vec<Job>> = OnceLock::new();
    let cell = match tier {
        Tier::Quick => &Q,
        Tier::Thorough => &T,
    };
    cell.get_or_init(|| {
        let menu = action_menu(5);
        let o = CfgOpts::default();
        let (d_cell, d_ctx, d_num) = match tier {
            Tier::Quick => (4, 3, 3),
            Tier::Thorough => (5, 4, 4),
        };
        let mut v: Vec<Job> = vec![];
        // iterative deepening: level = depth; all jobs of depth d come before depth d+1
        for (phase_depth_off, lvl) in [(0usize, 0u32), (1, 1)] {
            if tier == Tier::Quick && lvl == 1 {
                break;
            }
            for m in &menu {
                v.push(Job { tag: format!("cell/{}", m.tag), cfg: cfg3(&m.text, "b", "c", &o), depth: d_cell + phase_depth_off, kind: 0, level: lvl });
                let o2 = CfgOpts { chords_v2: true, overrides: true, defcfg: "concurrent-tap-hold yes".into(), ..Default::default() };
                v.push(Job { tag: format!("cell+cv2+ovr/{}", m.tag), cfg: cfg3(&m.text, "b", "c", &o2), depth: d_cell - 1 + phase_depth_off, kind: 0, level: lvl });
            }
            for e in EMPTIES {
                v.push(Job { tag: format!("empty/{}", e), cfg: cfg3(e, "b", "c", &o), depth: d_cell + phase_depth_off, kind: 0, level: lvl });
            }
            for (ctag, ca, cb, extra) in CONTEXTS {
                for m in menu.iter() {
                    let mut o3 = CfgOpts::default();
                    if extra.contains("defchordsv2") {
                        o3.defcfg = "concurrent-tap-hold yes".into();
                    }
                    o3.extra = extra.replace("{A}", &m.text);
                    v.push(Job {
                        tag: format!("{}/{}", ctag, m.tag),
                        cfg: cfg3(&ca.replace("{A}", &m.text), &cb.replace("{A}", &m.text), "c", &o3),
                        depth: d_ctx + phase_depth_off,
                        kind: 0,
                        level: lvl,
                    });
                }
                for e in EMPTIES.iter().take(12) {
                    let mut o3 = CfgOpts::default();
                    if extra.contains("defchordsv2") {
                        o3.defcfg = "concurrent-tap-hold yes".into();
                    }
                    o3.extra = extra.replace("{A}", e);
                    v.push(Job {
                        tag: format!("{}/empty/{}", ctag, e),
                        cfg: cfg3(&ca.replace("{A}", e), &cb.replace("{A}", e), "c", &o3),
                        depth: d_ctx + phase_depth_off,
                        kind: 0,
                        level: lvl,
                    });
                }
            }
            for m in &menu {
                // *-delay actions really thread::sleep for the given ms: only behaviourless cost; excluded from boundary values
                if m.text.contains("-delay") {
                    continue;
                }
                for nv in numeric_variants(&m.text) {
                    v.push(Job { tag: format!("num/{}", nv), cfg: cfg3(&nv, "b", "c", &o), depth: d_num + phase_depth_off, kind: 0, level: lvl });
                }
            }
            // *-delay custom actions thread::sleep for real: keep their exploration shallow
            for j in v.iter_mut() {
                if j.cfg.contains("-delay ") && j.kind == 0 {
                    j.depth = j.depth.min(2);
                }
            }
            if lvl == 0 {
                // flood family
                for m in ["x", "(tap-hold 5 5 x lsft)", "(one-shot 8 lsft)", "(multi x y z)", "(chord grp ka)", "(macro x y z)", "(on-press tap-vkey v1)", "(tap-dance 5 (x y))", "(layer-while-held nav)", "(caps-word 5)"] {
                    for cv2 in [false, true] {
                        let o4 = CfgOpts { chords_v2: cv2, defcfg: if cv2 { "concurrent-tap-hold yes".into() } else { String::new() }, ..Default::default() };
                        v.push(Job { tag: format!("flood/{}/{}", m, cv2), cfg: cfg3(m, m, "c", &o4), depth: 0, kind: 1, level: 0 });
                    }
                }
            }
        }
        v
    })
}

fn n_jobs(t: Tier) -> usize {
    jobs(t).len()
}
fn job_level(t: Tier, i: usize) -> u32 {
    jobs(t)[i].level
}
fn required_level(_t: Tier) -> u32 {
    0
}

fn alphabet() -> Vec<Ev> {
    let (a, b) = (kc("a"), kc("b"));
    vec![Ev::P(a), Ev::R(a), Ev::P(b), Ev::R(b), Ev::Rep(a), Ev::T(1), Ev::T(7), Ev::Vk(0, 3), Ev::Tap(a)]
}

const SETTLE: Ev = Ev::T(80);

fn check_one(cfg: &str, hist: &[Ev], first_new: usize, st: &mut Stats) -> Option<Violation> {
    let t0 = Instant::now();
    let mut full: Vec<Ev> = hist.to_vec();
    full.push(SETTLE);
    let r = exec_counting(cfg, &full, first_new, st);
    let dt = t0.elapsed().as_secs_f64();
    match r {
        Err((i, m)) => {
            let sig = panic_signature(&m);
            Some(mk_violation("C02", sig, format!("{} at step {} of [{}]", m, i, crate::sim::hist_to_string(&full)), "history", cfg, &full, json!({"failure": m})))
        }
        Ok(_) if dt > 2.0 * (full.len() as f64) => Some(mk_violation(
            "C02",
            format!("slow::{}", crate::sim::hash_str(cfg)),
            format!("history took {dt:.1}s"),
            "history",
            cfg,
            &full,
            json!({"seconds": dt}),
        )),
        Ok(_) => None,
    }
}

fn floods() -> Vec<Vec<Ev>> {
    let (a, b) = (kc("a"), kc("b"));
    let mut v = vec![];
    for n in [17usize, 33, 65, 129] {
        // presses without ticks (distinct codes impossible with 3 mapped keys: alternate a/b + unmapped codes)
        let mut h = vec![];
        for i in 0..n {
            h.push(Ev::P(if i % 2 == 0 { a } else { b }));
        }
        h.push(Ev::T(40));
        for i in 0..n {
            h.push(Ev::R(if i % 2 == 0 { a } else { b }));
        }
        h.push(Ev::T(80));
        v.push(h);
        let mut h = vec![];
        for i in 0..n {
            h.push(Ev::P(if i % 2 == 0 { a } else { b }));
            h.push(Ev::R(if i % 2 == 0 { a } else { b }));
        }
        h.push(Ev::T(80));
        v.push(h);
        let mut h = vec![];
        for _ in 0..n {
            h.push(Ev::Vk(0, 2));
        }
        h.push(Ev::T(80));
        v.push(h);
        let mut h = vec![Ev::P(a)];
        for _ in 0..n {
            h.push(Ev::Vk(0, 3));
            h.push(Ev::Rep(a));
        }
        h.push(Ev::T(1));
        h.push(Ev::R(a));
        h.push(Ev::T(80));
        v.push(h);
        // every known code pressed once without a tick, then released
        let mut h = vec![];
        for c in 0..n as u16 {
            h.push(Ev::P(c + 1));
        }
        h.push(Ev::T(3));
        for c in 0..n as u16 {
            h.push(Ev::R(c + 1));
        }
        h.push(Ev::T(80));
        v.push(h);
    }
    v
}

fn run_job(tier: Tier, idx: usize, st: &mut Stats) {
    let j = &jobs(tier)[idx];
    // accepted?
    match crate::sim::Sim::new(&j.cfg) {
        Err(e) => {
            if e.starts_with("PANIC") {
                // parser panic: that is C03's business, but a crash is a crash: report under C02 too.
                st.outcome("parser-panic");
                st.violation(mk_violation("C02", format!("parse-{}", panic_signature(&e)), format!("parser panicked: {e}"), "history", &j.cfg, &[], json!({})));
            } else {
                st.configs_rejected += 1;
                st.outcome("rejected");
            }
            return;
        }
        Ok(_) => {
            st.configs_accepted += 1;
            st.outcome(&format!("accepted/{}", j.tag.split('/').next().unwrap_or("")));
        }
    }
    if j.kind == 1 {
        for h in floods() {
            let r = exec_counting(&j.cfg, &h, 0, st);
            if let Err((i, m)) = r {
                st.violation(mk_violation("C02", panic_signature(&m), format!("{} at step {} of flood [{}...]", m, i, crate::sim::hist_to_string(&h[..h.len().min(6)])), "history-nosettle", &j.cfg, &h, json!({"failure": m})));
            }
        }
        st.sample(json!({"tag": j.tag, "flood": true}));
        return;
    }
    let alpha = alphabet();
    let mut found: Vec<Violation> = vec![];
    let mut n = 0u64;
    for_each_history(&alpha, j.depth, Consistency::Any, &[], |h, first_new, _| {
        if found.len() >= 3 {
            return;
        }
        n += 1;
        if let Some(v) = check_one(&j.cfg, h, first_new, st) {
            if !found.iter().any(|f| f.signature == v.signature) {
                found.push(v);
            }
        }
    });
    if idx % 97 == 0 {
        st.sample(json!({"tag": j.tag, "cfg": j.cfg, "depth": j.depth, "histories": n}));
    }
    for v in found {
        st.violation(v);
    }
}

fn replay(d: &serde_json::Value) -> Vec<Violation> {
    let Some((cfg, h)) = detail_cfg_hist(d) else { return vec![] };
    let mut st = Stats::default();
    match exec_counting(&cfg, &h, 0, &mut st) {
        Err((i, m)) => {
            let sig = if i == 0 && m.starts_with("PANIC") && h.is_empty() { format!("parse-{}", panic_signature(&m)) } else { panic_signature(&m) };
            vec![mk_violation("C02", sig, format!("{} at step {}", m, i), "history", &cfg, &h, json!({"failure": m}))]
        }
        Ok(_) => vec![],
    }
}
