//! C02 — an accepted configuration never crashes or hangs event processing.
//! Exhaustive: (context-placement product of the action menu + numeric boundary variants) x
//! (all histories of <= D steps over an UNCONSTRAINED alphabet) + flood family.
use super::*;
use crate::cfggen::*;
use crate::explore::*;
use crate::par::{PropDef, Stats, Tier};
use crate::sim::{kc, Ev};
use serde_json::json;
use std::sync::OnceLock;
use std::time::Instant;

pub fn def() -> PropDef {
    PropDef {
        id: "C02",
        level: "model_checking",
        n_jobs,
        job_level,
        run_job,
        replay,
        rule: "configs = every action-menu entry (≈95 list/atom actions, scaled time constants) in a layer cell and in each of 15 nesting contexts (alias, virtual key, chord v1/v2 action, tap-dance/eager item, fork l/r, switch case, multi member, tap-hold tap/hold/timeout slot, one-shot body, macro item) + every numeric token of every entry replaced by 0/1/65535 + empty-list variants; parser-rejected texts are counted and dropped. For each accepted config: ALL histories of exactly D steps over the unconstrained alphabet {press,release,repeat of a,b (no physical-consistency filter), tap, tick 1, tick 7, vkey toggle/tap via TCP path} followed by an 80-tick settle; plus flood scenarios (17..129 presses / vkey taps without a tick); plus minimal configs that use a feature without the optional block it usually comes with (sequence leader or always-on without any defseq, dynamic-macro play/stop without a recording, repeat with nothing to repeat, release of something not held, empty defsrc with deflayermap, a virtual key operating on itself) at one step deeper; plus a capacity family with one scenario family per fixed-capacity structure (9..16 layer-while-held keys held at once in three layer arrangements, one-shot chords of 8 key codes feeding the 20-slot repeat buffer, 1..5 keys of 18 key codes each against the 64-slot state vector, switch with 6..12 fall-through cases against the 8-slot action queue, v1 chord decomposition of 3..8 keys, switch conditions nesting 6..12 boolean operators in five patterns (rejected texts dropped), tap-dance with a 20-item list and up to 25 taps, 7..10 tap-hold keys pending at once). Oracle: no panic (dev-profile semantics: overflow + debug_assert panic), no step > 2 s. non-trivial = distinct (config, state digest) nodes; outcome classes = accepted/rejected/per-context.",
        assumptions: &[
            "dev-profile arithmetic (overflow-checks, debug-assertions) as in the pinned test-suite",
            "clipboard and cmd actions excluded (need OS services / feature off)",
            "nesting depth <= 2 contexts; histories <= D steps (D reported as completed_level)",
            "hang detection = 2 s per-step watchdog measured after the fact; a true infinite loop is caught by the parent deadline and reported as machinery failure, not attributed",
        ],
        required_level,
        min_outcomes: 3,
    }
}

struct Job {
    tag: String,
    cfg: String,
    depth: usize,
    kind: u8, // 0 = history exploration, 1 = flood, 2 = capacity scenarios
    level: u32,
}

const CONTEXTS: &[(&str, &str, &str, &str)] = &[
    // (tag, cell a, cell b, extra top-level); {A} = the action under test
    ("alias", "@al", "b", "(defalias al {A})"),
    ("vkey", "(on-press tap-vkey vz)", "(on-press toggle-vkey vz)", "(defvirtualkeys vz {A})"),
    ("chord1", "(chord g2 ka)", "(chord g2 kb)", "(defchords g2 5 (ka) {A} (kb) y (ka kb) {A})"),
    ("chord2", "a", "b", "(defchordsv2 (a b) {A} 5 all-released ())"),
    ("chord2-first", "{A}", "b", "(defchordsv2 (a b) {A} 5 first-release ())"),
    ("td", "(tap-dance 5 ({A} y))", "b", ""),
    ("td-eager", "(tap-dance-eager 5 ({A} y))", "b", ""),
    ("fork-l", "(fork {A} y (lsft))", "lsft", ""),
    ("fork-r", "(fork y {A} (b))", "b", ""),
    ("switch", "(switch () {A} fallthrough ((input real b)) {A} break)", "b", ""),
    ("multi", "(multi {A} lctl)", "b", ""),
    ("th-tap", "(tap-hold 5 5 {A} lsft)", "b", ""),
    ("th-hold", "(tap-hold-press 5 5 x {A})", "b", ""),
    ("th-timeout", "(tap-hold-release-timeout 5 5 x y {A})", "b", ""),
    ("oneshot", "(one-shot 8 {A})", "b", ""),
    ("macro", "(macro {A} 2 x)", "b", ""),
];

fn numeric_variants(text: &str) -> Vec<String> {
    // replace each all-digit token by each boundary value
    let mut toks: Vec<String> = vec![];
    let mut cur = String::new();
    for ch in text.chars() {
        if ch == '(' || ch == ')' || ch.is_whitespace() {
            if !cur.is_empty() {
                toks.push(std::mem::take(&mut cur));
            }
            toks.push(ch.to_string());
        } else {
            cur.push(ch);
        }
    }
    if !cur.is_empty() {
        toks.push(cur);
    }
    let mut out = vec![];
    for i in 0..toks.len() {
        if !toks[i].is_empty() && toks[i].chars().all(|c| c.is_ascii_digit()) {
            for b in ["0", "1", "65535"] {
                if toks[i] != b {
                    let mut t = toks.clone();
                    t[i] = b.to_string();
                    out.push(t.concat());
                }
            }
        }
    }
    out
}

const EMPTIES: &[&str] = &[
    "(tap-dance 5 ())",
    "(tap-dance-eager 5 ())",
    "(multi)",
    "(macro)",
    "(fork x y ())",
    "(switch)",
    "(unmod)",
    "(caps-word-custom 5 () ())",
    "(tap-hold-release-keys 5 5 x y ())",
    "(tap-hold-except-keys 5 5 x y ())",
    "(multi (dynamic-macro-record 1) (dynamic-macro-record 1))",
    "(multi (dynamic-macro-record 1) dynamic-macro-record-stop)",
    "(multi (dynamic-macro-record 1) (dynamic-macro-play 1))",
    "(multi (sequence 5) (sequence 5))",
    "(multi rpt rpt-any)",
    "(macro-repeat 1)",
    "(macro-repeat (unicode a))",
    "(sequence 0)",
    "(sequence 1)",
    "(hold-for-duration 0 v1)",
    "(on-idle 0 tap-vkey v1)",
    "(multi (on-press press-vkey v1) (hold-for-duration 3 v1) (on-idle 2 toggle-vkey v1))",
    "(multi (layer-while-held nav) (layer-switch nav) (release-layer nav))",
    "(release-key x)",
    "(release-layer base)",
    "(multi mwhu mwhd mwhl mwhr)",
    "(multi (movemouse-up 1 1) (movemouse-down 1 1) (movemouse-accel-up 1 1 1 2))",
    "(movemouse-accel-up 1 0 1 1)",
    "(multi (mwheel-up 1 1) (mwheel-down 1 65535))",
    "(arbitrary-code 0)",
    "(arbitrary-code 767)",
    "(switch ((key-timing 8 lt 65535)) x break ((key-history a 8)) y fallthrough ((input-history real a 8)) z break)",
    "(switch () x fallthrough () y fallthrough () z fallthrough () x fallthrough () y fallthrough () z fallthrough () x fallthrough () y fallthrough () z fallthrough () x break)",
];

fn jobs(tier: Tier) -> &'static Vec<Job> {
    static Q: OnceLock<Vec<Job>> = OnceLock::new();
    static T: OnceLock<Vec<Job>> = OnceLock::new();
    let cell = match tier {
        Tier::Quick => &Q,
        Tier::Thorough => &T,
    };
    cell.get_or_init(|| {
        let menu = action_menu(5);
        let o = CfgOpts::default();
        let (d_cell, d_ctx, d_num) = match tier {
            Tier::Quick => (4, 3, 3),
            Tier::Thorough => (5, 4, 4),
        };
        let mut v: Vec<Job> = vec![];
        // iterative deepening: level = depth; all jobs of depth d come before depth d+1
        for (phase_depth_off, lvl) in [(0usize, 0u32), (1, 1)] {
            if tier == Tier::Quick && lvl == 1 {
                break;
            }
            for m in &menu {
                v.push(Job { tag: format!("cell/{}", m.tag), cfg: cfg3(&m.text, "b", "c", &o), depth: d_cell + phase_depth_off, kind: 0, level: lvl });
                let o2 = CfgOpts { chords_v2: true, overrides: true, defcfg: "concurrent-tap-hold yes".into(), ..Default::default() };
                v.push(Job { tag: format!("cell+cv2+ovr/{}", m.tag), cfg: cfg3(&m.text, "b", "c", &o2), depth: d_cell - 1 + phase_depth_off, kind: 0, level: lvl });
            }
            for e in EMPTIES {
                v.push(Job { tag: format!("empty/{}", e), cfg: cfg3(e, "b", "c", &o), depth: d_cell + phase_depth_off, kind: 0, level: lvl });
            }
            for (ctag, ca, cb, extra) in CONTEXTS {
                for m in menu.iter() {
                    let mut o3 = CfgOpts::default();
                    if extra.contains("defchordsv2") {
                        o3.defcfg = "concurrent-tap-hold yes".into();
                    }
                    o3.extra = extra.replace("{A}", &m.text);
                    v.push(Job {
                        tag: format!("{}/{}", ctag, m.tag),
                        cfg: cfg3(&ca.replace("{A}", &m.text), &cb.replace("{A}", &m.text), "c", &o3),
                        depth: d_ctx + phase_depth_off,
                        kind: 0,
                        level: lvl,
                    });
                }
                for e in EMPTIES.iter().take(12) {
                    let mut o3 = CfgOpts::default();
                    if extra.contains("defchordsv2") {
                        o3.defcfg = "concurrent-tap-hold yes".into();
                    }
                    o3.extra = extra.replace("{A}", e);
                    v.push(Job {
                        tag: format!("{}/empty/{}", ctag, e),
                        cfg: cfg3(&ca.replace("{A}", e), &cb.replace("{A}", e), "c", &o3),
                        depth: d_ctx + phase_depth_off,
                        kind: 0,
                        level: lvl,
                    });
                }
            }
            for m in &menu {
                // *-delay actions really thread::sleep for the given ms: only behaviourless cost; excluded from boundary values
                if m.text.contains("-delay") {
                    continue;
                }
                for nv in numeric_variants(&m.text) {
                    v.push(Job { tag: format!("num/{}", nv), cfg: cfg3(&nv, "b", "c", &o), depth: d_num + phase_depth_off, kind: 0, level: lvl });
                }
            }
            // *-delay custom actions thread::sleep for real: keep their exploration shallow
            for j in v.iter_mut() {
                if j.cfg.contains("-delay ") && j.kind == 0 {
                    j.depth = j.depth.min(2);
                }
            }
            if lvl == 0 {
                // minimal configs: features used WITHOUT the optional block they usually come with (a
                // sequence leader but no defseq, play/stop without a recording, repeat with nothing to
                // repeat, empty defsrc ...)
                for (tag, cfg) in [
                    ("sldr-no-defseq", "(defcfg sequence-timeout 6)\n(defsrc a b c)\n(deflayer base sldr b c)\n"),
                    ("sequence-action-no-defseq", "(defsrc a b c)\n(deflayer base (sequence 6) (sequence 6 hidden-delay-type) (sequence 6 visible-backspaced))\n"),
                    ("sequence-always-on-no-defseq", "(defcfg sequence-always-on yes sequence-timeout 6)\n(defsrc a b c)\n(deflayer base a b c)\n"),
                    ("dynmacro-play-stop-only", "(defsrc a b c)\n(deflayer base (dynamic-macro-play 1) (dynamic-macro-record-stop-truncate 3) dynamic-macro-record-stop)\n"),
                    ("repeat-nothing", "(defsrc a b c)\n(deflayer base rpt rpt-any c)\n"),
                    ("release-nothing", "(defsrc a b c)\n(deflayer base (release-key lsft) (release-layer base) c)\n"),
                    ("noerase-cancel-outside-sequence", "(defsrc a b c)\n(deflayer base (sequence-noerase 2) b c)\n"),
                    ("empty-defsrc-layermap", "(defcfg process-unmapped-keys yes)\n(defsrc)\n(deflayermap (base) a x b (tap-hold 5 5 y lsft))\n"),
                    ("vkey-ops-on-itself", "(defsrc a b c)\n(defvirtualkeys v1 (on-press toggle-vkey v1))\n(deflayer base (on-press tap-vkey v1) (on-press press-vkey v1) c)\n"),
                ] {
                    v.push(Job { tag: format!("minimal/{tag}"), cfg: cfg.to_string(), depth: d_cell + 1, kind: 0, level: 0 });
                }
                for (tag, cfg, _) in capacity_scenarios() {
                    v.push(Job { tag: format!("capacity/{tag}"), cfg, depth: 0, kind: 2, level: 0 });
                }
                // flood family
                for m in ["x", "(tap-hold 5 5 x lsft)", "(one-shot 8 lsft)", "(multi x y z)", "(chord grp ka)", "(macro x y z)", "(on-press tap-vkey v1)", "(tap-dance 5 (x y))", "(layer-while-held nav)", "(caps-word 5)"] {
                    for cv2 in [false, true] {
                        let o4 = CfgOpts { chords_v2: cv2, defcfg: if cv2 { "concurrent-tap-hold yes".into() } else { String::new() }, ..Default::default() };
                        v.push(Job { tag: format!("flood/{}/{}", m, cv2), cfg: cfg3(m, m, "c", &o4), depth: 0, kind: 1, level: 0 });
                    }
                }
            }
        }
        v
    })
}

fn n_jobs(t: Tier) -> usize {
    jobs(t).len()
}
fn job_level(t: Tier, i: usize) -> u32 {
    jobs(t)[i].level
}
fn required_level(_t: Tier) -> u32 {
    0
}

fn alphabet() -> Vec<Ev> {
    let (a, b) = (kc("a"), kc("b"));
    vec![Ev::P(a), Ev::R(a), Ev::P(b), Ev::R(b), Ev::Rep(a), Ev::T(1), Ev::T(7), Ev::Vk(0, 3), Ev::Tap(a)]
}

const SETTLE: Ev = Ev::T(80);

fn check_one(cfg: &str, hist: &[Ev], first_new: usize, st: &mut Stats) -> Option<Violation> {
    let t0 = Instant::now();
    let mut full: Vec<Ev> = hist.to_vec();
    full.push(SETTLE);
    let r = exec_counting(cfg, &full, first_new, st);
    let dt = t0.elapsed().as_secs_f64();
    match r {
        Err((i, m)) => {
            let sig = panic_signature(&m);
            Some(mk_violation("C02", sig, format!("{} at step {} of [{}]", m, i, crate::sim::hist_to_string(&full)), "history", cfg, &full, json!({"failure": m})))
        }
        Ok(_) if dt > 2.0 * (full.len() as f64) => Some(mk_violation(
            "C02",
            format!("slow::{}", crate::sim::hash_str(cfg)),
            format!("history took {dt:.1}s"),
            "history",
            cfg,
            &full,
            json!({"seconds": dt}),
        )),
        Ok(_) => None,
    }
}

/// Capacity family: one scenario family per fixed-capacity structure of the state machine
/// (LayerStack 12, MultiKeyBuffer 20, states 64, action queue 8, one-shot 16, extra waiting 8,
/// tap-dance list, v1 chord decomposition): drive the count to capacity-1, capacity, +1, +2.
fn capacity_scenarios() -> Vec<(String, String, Vec<Vec<Ev>>)> {
    let names: Vec<&str> = "a b c d e f g h i j k l m n o p q r s t u v w".split(' ').collect();
    let src = names[..18].join(" ");
    let taps = |ks: &[&str], gap: u32| -> Vec<Ev> {
        let mut h = vec![];
        for k in ks {
            h.push(Ev::P(kc(k)));
            h.push(Ev::T(1));
            h.push(Ev::R(kc(k)));
            h.push(Ev::T(gap));
        }
        h
    };
    let hold_n_then_probe = |n: usize, probe: &str, reverse: bool| -> Vec<Ev> {
        let mut h = vec![];
        for k in &names[..n] {
            h.push(Ev::P(kc(k)));
            h.push(Ev::T(1));
        }
        h.push(Ev::P(kc(probe)));
        h.push(Ev::T(1));
        h.push(Ev::Rep(kc(probe)));
        h.push(Ev::R(kc(probe)));
        h.push(Ev::T(1));
        let mut ks: Vec<&str> = names[..n].to_vec();
        if reverse {
            ks.reverse();
        }
        for k in ks {
            h.push(Ev::R(kc(k)));
            h.push(Ev::T(1));
        }
        h.push(Ev::T(60));
        h
    };
    let mut v = vec![];
    // (1)-(3) held layers: 16 layer keys + probe r
    let mut hl = vec![];
    for n in 9..=16 {
        for rev in [false, true] {
            hl.push(hold_n_then_probe(n, "r", rev));
        }
    }
    let lwh16 = vec!["(layer-while-held nav)"; 16].join(" ");
    v.push(("held-layers/explicit".to_string(), format!("(defcfg)\n(defsrc {src})\n(deflayer base {lwh16} x y)\n(deflayer nav {lwh16} z _)\n"), hl.clone()));
    v.push(("held-layers/transparent".to_string(), format!("(defcfg)\n(defsrc {src})\n(deflayer base {lwh16} x y)\n(deflayer nav {} z _)\n", vec!["_"; 16].join(" ")), hl.clone()));
    {
        let row: String = (1..=16).map(|i| format!("(layer-while-held l{i})")).collect::<Vec<_>>().join(" ");
        let mut cfg = format!("(defcfg delegate-to-first-layer yes)\n(defsrc {src})\n(deflayer base {row} x y)\n");
        for i in 1..=16 {
            cfg += &format!("(deflayer l{i} {row} _ (switch ((layer l{i})) z break () w break))\n");
        }
        v.push(("held-layers/distinct".to_string(), cfg, hl.clone()));
    }
    // (4) wide one-shot chords feeding the repeat buffer (20 slots): n one-shot keys of 8 key codes + a 5-code chord + rpt-any
    {
        let cfg = format!("(defcfg)\n(defsrc a b c d e f g)\n(deflayer base (one-shot 50 S-RS-C-RC-M-RM-A-AG-x) (one-shot 50 S-RS-C-RC-M-RM-A-AG-y) (one-shot 50 S-RS-C-RC-M-RM-A-AG-z) C-S-A-M-w S-C-v rpt-any (multi lsft lctl lalt lmet rsft rctl ralt rmet q w e r t y u i o p))\n");
        let mut hs = vec![];
        for os in [vec!["a"], vec!["a", "b"], vec!["a", "b", "c"], vec!["a", "b", "c", "a", "b"]] {
            for key in ["d", "e", "g"] {
                let mut h = taps(&os, 1);
                h.extend(taps(&[key], 2));
                h.extend(taps(&["f"], 2));
                h.push(Ev::T(80));
                hs.push(h);
            }
        }
        v.push(("repeat-buffer/one-shot-chords".to_string(), cfg, hs));
    }
    // (5) states vector (64): keys whose action presses 18 codes each, 1..5 of them held, then rpt-any
    {
        let big = "(multi lsft lctl lalt lmet rsft rctl ralt rmet q w e r t y u i o p)";
        let cfg = format!("(defcfg)\n(defsrc a b c d e f)\n(deflayer base {big} {big} {big} {big} {big} rpt-any)\n");
        let mut hs = vec![];
        for n in 1..=5usize {
            let mut h = vec![];
            for k in &names[..n] {
                h.push(Ev::P(kc(k)));
                h.push(Ev::T(1));
            }
            h.extend(taps(&["f"], 1));
            for k in &names[..n] {
                h.push(Ev::R(kc(k)));
                h.push(Ev::T(1));
            }
            h.extend(taps(&["f"], 1));
            h.push(Ev::T(40));
            hs.push(h);
        }
        v.push(("states/big-multi".to_string(), cfg, hs));
    }
    // (6) action queue (8): switch with 6..12 fall-through cases
    for n in [6usize, 7, 8, 9, 10, 12] {
        let cases: String = (0..n).map(|i| format!("() {} fallthrough ", ["q", "w", "e", "r", "t", "y", "u", "i", "o", "p", "x", "z"][i])).collect();
        let cfg = format!("(defcfg)\n(defsrc a b)\n(deflayer base (switch {cases}) b)\n");
        v.push((format!("action-queue/switch-{n}"), cfg, vec![{
            let mut h = taps(&["a", "b", "a"], 2);
            h.push(Ev::P(kc("a")));
            h.push(Ev::P(kc("b")));
            h.push(Ev::T(3));
            h.push(Ev::R(kc("a")));
            h.push(Ev::R(kc("b")));
            h.push(Ev::T(40));
            h
        }]));
    }
    // (7) v1 chords: 8 participants, all singles + the full chord + a 2-chord: all pressed within the timeout,
    //     released from the middle (decomposition into many parts fills the action queue)
    {
        let ks = &names[..8];
        let mut cfg = format!("(defcfg)\n(defsrc {})\n(deflayer base {})\n(defchords g 10", ks.join(" "), ks.iter().map(|k| format!("(chord g k{k})")).collect::<Vec<_>>().join(" "));
        for k in ks {
            cfg += &format!("\n  (k{k}) {k}");
        }
        cfg += &format!("\n  (ka kb) x\n  ({}) y)\n", ks.iter().map(|k| format!("k{k}")).collect::<Vec<_>>().join(" "));
        let mut hs = vec![];
        for n in 3..=8usize {
            for rel in [0usize, n / 2, n - 1] {
                let mut h = vec![];
                for k in &ks[..n] {
                    h.push(Ev::P(kc(k)));
                }
                h.push(Ev::T(2));
                h.push(Ev::R(kc(ks[rel])));
                h.push(Ev::T(20));
                for (i, k) in ks[..n].iter().enumerate() {
                    if i != rel {
                        h.push(Ev::R(kc(k)));
                    }
                }
                h.push(Ev::T(40));
                hs.push(h);
            }
        }
        v.push(("action-queue/v1-chord-decomposition".to_string(), cfg, hs));
    }
    // (7b) boolean nesting in switch: chains of 6..12 operators in several patterns (the evaluator's stack
    //      holds 8 frames; the parser must reject what the evaluator cannot hold)
    for depth in 6..=12usize {
        for (pn, pat) in [("not", vec!["not"]), ("or", vec!["or"]), ("or-not", vec!["or", "not"]), ("and-not", vec!["and", "not"]), ("not-not-or", vec!["not", "not", "or"])] {
            let mut expr = String::from("b");
            for i in 0..depth {
                let op = pat[(depth - 1 - i) % pat.len()];
                expr = format!("({op} {expr})");
            }
            let cfg = format!("(defcfg)\n(defsrc a b)\n(deflayer base (switch ({expr}) x break () y break) b)\n");
            let mut h = taps(&["a"], 2);
            h.push(Ev::P(kc("b")));
            h.push(Ev::T(1));
            h.extend(taps(&["a"], 2));
            h.push(Ev::R(kc("b")));
            h.push(Ev::T(20));
            v.push((format!("bool-depth/{pn}-{depth}"), cfg, vec![h]));
        }
    }
    // (8) tap-dance with a 20-item list, 1..25 taps; eager and lazy
    for eager in [false, true] {
        let items: String = (0..20).map(|i| ["q", "w", "e", "r", "t"][i % 5]).collect::<Vec<_>>().join(" ");
        let cfg = format!("(defcfg)\n(defsrc a b)\n(deflayer base (tap-dance{} 5 ({items})) b)\n", if eager { "-eager" } else { "" });
        let mut hs = vec![];
        for n in [1usize, 19, 20, 21, 22, 25] {
            let mut h = taps(&vec!["a"; n], 1);
            h.push(Ev::T(30));
            hs.push(h);
        }
        v.push((format!("tap-dance/20-items/{}", if eager { "eager" } else { "lazy" }), cfg, hs));
    }
    // (9) 7..10 tap-hold keys pending at once (extra waiting 8), with and without concurrent-tap-hold
    for conc in ["no", "yes"] {
        let th10 = (0..10).map(|_| "(tap-hold 20 20 x lsft)").collect::<Vec<_>>().join(" ");
        let cfg = format!("(defcfg concurrent-tap-hold {conc})\n(defsrc {})\n(deflayer base {th10} z)\n", names[..11].join(" "));
        let mut hs = vec![];
        for n in 7..=10usize {
            let mut h = vec![];
            for k in &names[..n] {
                h.push(Ev::P(kc(k)));
                h.push(Ev::T(1));
            }
            h.extend(taps(&["k"], 1));
            h.push(Ev::T(30));
            for k in &names[..n] {
                h.push(Ev::R(kc(k)));
            }
            h.push(Ev::T(40));
            hs.push(h);
        }
        v.push((format!("extra-waiting/tap-hold-x10/conc-{conc}"), cfg, hs));
    }
    v
}

fn floods() -> Vec<Vec<Ev>> {
    let (a, b) = (kc("a"), kc("b"));
    let mut v = vec![];
    for n in [17usize, 33, 65, 129] {
        // presses without ticks (distinct codes impossible with 3 mapped keys: alternate a/b + unmapped codes)
        let mut h = vec![];
        for i in 0..n {
            h.push(Ev::P(if i % 2 == 0 { a } else { b }));
        }
        h.push(Ev::T(40));
        for i in 0..n {
            h.push(Ev::R(if i % 2 == 0 { a } else { b }));
        }
        h.push(Ev::T(80));
        v.push(h);
        let mut h = vec![];
        for i in 0..n {
            h.push(Ev::P(if i % 2 == 0 { a } else { b }));
            h.push(Ev::R(if i % 2 == 0 { a } else { b }));
        }
        h.push(Ev::T(80));
        v.push(h);
        let mut h = vec![];
        for _ in 0..n {
            h.push(Ev::Vk(0, 2));
        }
        h.push(Ev::T(80));
        v.push(h);
        let mut h = vec![Ev::P(a)];
        for _ in 0..n {
            h.push(Ev::Vk(0, 3));
            h.push(Ev::Rep(a));
        }
        h.push(Ev::T(1));
        h.push(Ev::R(a));
        h.push(Ev::T(80));
        v.push(h);
        // every known code pressed once without a tick, then released
        let mut h = vec![];
        for c in 0..n as u16 {
            h.push(Ev::P(c + 1));
        }
        h.push(Ev::T(3));
        for c in 0..n as u16 {
            h.push(Ev::R(c + 1));
        }
        h.push(Ev::T(80));
        v.push(h);
    }
    v
}

fn run_job(tier: Tier, idx: usize, st: &mut Stats) {
    let j = &jobs(tier)[idx];
    // accepted?
    match crate::sim::Sim::new(&j.cfg) {
        Err(e) => {
            if e.starts_with("PANIC") {
                // parser panic: that is C03's business, but a crash is a crash: report under C02 too.
                st.outcome("parser-panic");
                st.violation(mk_violation("C02", format!("parse-{}", panic_signature(&e)), format!("parser panicked: {e}"), "history", &j.cfg, &[], json!({})));
            } else {
                st.configs_rejected += 1;
                st.outcome("rejected");
            }
            return;
        }
        Ok(_) => {
            st.configs_accepted += 1;
            st.outcome(&format!("accepted/{}", j.tag.split('/').next().unwrap_or("")));
        }
    }
    if j.kind == 2 {
        let tag = j.tag.strip_prefix("capacity/").unwrap_or("");
        for (t, _, hs) in capacity_scenarios() {
            if t != tag {
                continue;
            }
            for h in hs {
                if let Err((i, m)) = exec_counting(&j.cfg, &h, 0, st) {
                    st.violation(mk_violation("C02", panic_signature(&m), format!("{}: {} at step {} of [{}]", j.tag, m, i, crate::sim::hist_to_string(&h)), "history-nosettle", &j.cfg, &h, json!({"failure": m})));
                    break;
                }
            }
        }
        st.sample(json!({"tag": j.tag, "capacity": true}));
        return;
    }
    if j.kind == 1 {
        for h in floods() {
            let r = exec_counting(&j.cfg, &h, 0, st);
            if let Err((i, m)) = r {
                st.violation(mk_violation("C02", panic_signature(&m), format!("{} at step {} of flood [{}...]", m, i, crate::sim::hist_to_string(&h[..h.len().min(6)])), "history-nosettle", &j.cfg, &h, json!({"failure": m})));
            }
        }
        st.sample(json!({"tag": j.tag, "flood": true}));
        return;
    }
    let alpha = alphabet();
    let mut found: Vec<Violation> = vec![];
    let mut n = 0u64;
    for_each_history(&alpha, j.depth, Consistency::Any, &[], |h, first_new, _| {
        if found.len() >= 3 {
            return;
        }
        n += 1;
        if let Some(v) = check_one(&j.cfg, h, first_new, st) {
            if !found.iter().any(|f| f.signature == v.signature) {
                found.push(v);
            }
        }
    });
    if idx % 97 == 0 {
        st.sample(json!({"tag": j.tag, "cfg": j.cfg, "depth": j.depth, "histories": n}));
    }
    for v in found {
        st.violation(v);
    }
}

fn replay(d: &serde_json::Value) -> Vec<Violation> {
    let Some((cfg, h)) = detail_cfg_hist(d) else { return vec![] };
    let mut st = Stats::default();
    match exec_counting(&cfg, &h, 0, &mut st) {
        Err((i, m)) => {
            let sig = if i == 0 && m.starts_with("PANIC") && h.is_empty() { format!("parse-{}", panic_signature(&m)) } else { panic_signature(&m) };
            vec![mk_violation("C02", sig, format!("{} at step {}", m, i), "history", &cfg, &h, json!({"failure": m}))]
        }
        Ok(_) => vec![],
    }
}
