use crate::par::PropDef;
pub mod c01;
pub mod c02;
pub mod c03;
pub mod c04;
pub mod c05;
pub mod c06;
pub mod c07;
pub mod conform;
pub mod c08;
pub mod c09;
pub mod c10;
pub mod c11;
pub mod c12;
pub mod c13;
pub mod c14;
pub mod c15;
pub mod c16;
pub mod c17;
pub mod c18;
pub mod c19;
pub mod c20;

pub fn all() -> Vec<PropDef> {
    vec![c01::def(), c02::def(), c03::def(), c04::def(), c05::def(), c06::def(), c07::def(), c08::def(), c09::def(), c10::def(), c11::def(), c12::def(), c13::def(), c14::def(), c15::def(), c16::def(), c17::def(), c18::def(), c19::def(), c20::def()]
}

/// Shared helper: a panic/error message from Sim into a stable signature.
pub fn panic_signature(msg: &str) -> String {
    // "PANIC file:line :: text"
    let m = msg.trim_start_matches("PANIC ").trim_start_matches("ERR ");
    let (site, text) = m.split_once(" :: ").unwrap_or((m, ""));
    let file = site.rsplit_once(':').map(|x| x.0).unwrap_or(site).trim_start_matches("/repo/");
    let text: String = text.chars().take(80).collect();
    format!("panic@{}::{}", file, text)
}

use crate::par::{Stats, Violation};
use crate::sim::{Ev, Sim};

/// Builds a fresh real instance and replays `hist`, counting tree nodes once (`first_new` = length
/// of the prefix already counted by the previous history) and recording the state digest of every
/// new node. Returns the live Sim, or the failure text (panic / error) with the index of the
/// failing step.
pub fn exec_counting(cfg: &str, hist: &[Ev], first_new: usize, st: &mut Stats) -> Result<Sim, (usize, String)> {
    crate::par::announce(cfg, hist);
    let mut s = match Sim::new(cfg) {
        Ok(s) => s,
        Err(e) => return Err((0, e)),
    };
    st.evaluations += 1;
    for (i, e) in hist.iter().enumerate() {
        if let Err(m) = s.step(*e) {
            return Err((i, m));
        }
        if i >= first_new {
            st.transitions += 1;
            st.states.insert(s.digest());
        }
    }
    Ok(s)
}

pub fn mk_violation(prop: &str, signature: String, what: String, kind: &str, cfg: &str, hist: &[Ev], extra: serde_json::Value) -> Violation {
    Violation {
        property: prop.to_string(),
        signature,
        what,
        detail: serde_json::json!({"kind": kind, "cfg": cfg, "history": crate::sim::hist_to_string(hist), "extra": extra}),
    }
}

pub fn detail_cfg_hist(d: &serde_json::Value) -> Option<(String, Vec<Ev>)> {
    let cfg = d.get("cfg")?.as_str()?.to_string();
    let h = crate::sim::hist_parse(d.get("history")?.as_str()?)?;
    Some((cfg, h))
}
