//! C06 — one-shot applies to exactly the next key, or expires; it never lingers.
use super::*;
use crate::explore::*;
use crate::par::{PropDef, Stats, Tier};
use crate::sim::{kc, Ev, Out, Sim};
use serde_json::json;
use std::sync::OnceLock;

pub fn def() -> PropDef {
    PropDef {
        id: "C06",
        level: "model_checking",
        n_jobs,
        job_level,
        run_job,
        replay,
        rule: "configs: 4 end-variants (one-shot-press, -release, -press-pcancel, -release-pcancel) x timeout T in {4,8} x rapid-event-delay {5,0} x body in {modifier key, output chord C-S-.., (layer-while-held nav)}; keys a, b = one-shot keys (lsft / lctl, or layer), c, d = plain keys. Histories: EVERY physically consistent schedule of N events over press/release of a,b,c,d with gaps from {0,1,T-1,T,T+1} (quick N=4, thorough N=5), then released and settled. Second family (quick and thorough): steps {tap a, tap b (press, 1 tick, release), toggle a/b/c/d} with gaps {1,T-1,T+1}, all sequences of N steps. Stacking family: n = 1..20 distinct one-shot keys tapped in a row (crossing the 16-entry table) then one plain key, all n. Oracle OneShotSpec: for every plain-key press output, the set of one-shot outputs held at the OS at that instant equals the spec's set: the active one-shot keys (combined, timer restarted by each one-shot tap) until the first following plain key press (press variants) / release of a newly pressed plain key (release variants) / re-press of an active one-shot key (pcancel) / timeout, plus every physically held one-shot key; nothing after that point is modified; plain keys are output in input order, none lost; nothing is held after settle. Boundaries within the processing skew (queue delay + rapid-event-delay + 1) of the timeout branch into both readings.",
        assumptions: &["timer boundaries within the processing skew are don't-cares (both readings accepted)", "for layer bodies the observable is the layer the plain key resolves on"],
        required_level,
        min_outcomes: 3,
    }
}

#[derive(Clone, Debug)]
struct Spec {
    release: bool,
    pcancel: bool,
    t: u32,
    red: u32,
    body: u8, // 0 modifier keys, 1 output chords, 2 layer
}

impl Spec {
    fn name(&self) -> &'static str {
        match (self.release, self.pcancel) {
            (false, false) => "one-shot-press",
            (true, false) => "one-shot-release",
            (false, true) => "one-shot-press-pcancel",
            (true, true) => "one-shot-release-pcancel",
        }
    }
    fn cfg(&self) -> String {
        let (ba, bb) = match self.body {
            0 => ("lsft", "lctl"),
            1 => ("C-S-lalt", "rctl"),
            _ => ("(layer-while-held nav)", "lctl"),
        };
        format!(
            "(defcfg rapid-event-delay {})\n(defsrc a b c d)\n(deflayer base ({n} {t} {ba}) ({n} {t} {bb}) c d)\n(deflayer nav _ _ 1 2)\n",
            self.red,
            n = self.name(),
            t = self.t
        )
    }
    fn tag(&self) -> String {
        format!("{}/T{}/red{}/body{}", self.name(), self.t, self.red, self.body)
    }
    /// OS key names that one-shot key k (0/1) puts down
    fn outs(&self, k: usize) -> Vec<&'static str> {
        match (self.body, k) {
            (0, 0) => vec!["LShift"],
            (0, _) => vec!["LCtrl"],
            (1, 0) => vec!["LCtrl", "LShift", "LAlt"],
            (1, _) => vec!["RCtrl"],
            (_, 0) => vec!["<nav>"],
            (_, _) => vec!["LCtrl"],
        }
    }
}

struct Job {
    spec: Spec,
    n: usize,
    first: Option<usize>,
    stack: bool,
    /// second family: composite 'tap' steps for the one-shot keys (press, 1 tick, release) so that
    /// multi-tap scenarios (stacking, pcancel re-press) are reached at small depth
    taps: bool,
    level: u32,
}

fn jobs(tier: Tier) -> &'static Vec<Job> {
    static Q: OnceLock<Vec<Job>> = OnceLock::new();
    static T: OnceLock<Vec<Job>> = OnceLock::new();
    let cell = match tier {
        Tier::Quick => &Q,
        Tier::Thorough => &T,
    };
    cell.get_or_init(|| {
        let mut v = vec![];
        let levels: &[(u32, usize)] = match tier {
            Tier::Quick => &[(0, 4)],
            Tier::Thorough => &[(0, 4), (1, 5), (2, 6)],
        };
        for (lvl, n) in levels.iter().copied() {
            for release in [false, true] {
                for pcancel in [false, true] {
                    for t in [4u32, 8] {
                        for red in [5u32, 0] {
                            for body in 0..3u8 {
                                // quick: full product only for body 0; other bodies with T=4
                                if body != 0 && (t != 4 || (tier == Tier::Quick && red != 5)) {
                                    continue;
                                }
                                // N = 6 schedules (20^5 per shard) do not fit any reasonable deadline: the deepest
                                // level is run for the taps family only
                                if n >= 6 {
                                    continue;
                                }
                                for first in 0..20 {
                                    v.push(Job { spec: Spec { release, pcancel, t, red, body }, n, first: Some(first), stack: false, taps: false, level: lvl });
                                }
                            }
                        }
                    }
                    {
                        if lvl == 0 {
                            v.push(Job { spec: Spec { release, pcancel, t: 8, red: 5, body: 0 }, n: 0, first: None, stack: true, taps: false, level: 0 });
                        }
                        for t in [4u32, 8] {
                            for red in [5u32, 0] {
                                if n >= 6 {
                                    continue; // 18^5 step sequences per shard: beyond any reasonable deadline
                                }
                                for first in 0..18 {
                                    v.push(Job { spec: Spec { release, pcancel, t, red, body: 0 }, n, first: Some(first), stack: false, taps: true, level: lvl });
                                }
                            }
                        }
                    }
                }
            }
        }
        v
    })
}

fn n_jobs(t: Tier) -> usize {
    jobs(t).len()
}
fn job_level(t: Tier, i: usize) -> u32 {
    jobs(t)[i].level
}
fn required_level(_t: Tier) -> u32 {
    0
}

#[derive(Clone, Copy, Debug)]
struct In {
    t: u64,
    d: u64, // queue delay
    press: bool,
    key: usize,
}

#[derive(Clone, Debug)]
struct Sess {
    mods: Vec<usize>,
    deadline: u64,
    new_pressed: Vec<usize>,
    last_os_delay: u64,
}

#[derive(Clone, Debug)]
struct St {
    held: [bool; 4],
    sess: Option<Sess>,
    out: Vec<u8>, // expected one-shot mask (bit k) for each plain press, in order
}

/// All acceptable expectation vectors.
fn expected(spec: &Spec, ins: &[In]) -> Vec<Vec<u8>> {
    let t_out = spec.t as u64;
    let mut states = vec![St { held: [false; 4], sess: None, out: vec![] }];
    for e in ins {
        let mut next: Vec<St> = vec![];
        for s in states {
            // resolve expiry (possibly branching)
            let mut variants: Vec<St> = vec![];
            match &s.sess {
                Some(se) => {
                    let skew = e.d + se.last_os_delay + spec.red as u64 + 1;
                    if e.t + skew < se.deadline {
                        variants.push(s.clone());
                    } else if e.t > se.deadline + skew {
                        let mut x = s.clone();
                        x.sess = None;
                        variants.push(x);
                    } else {
                        variants.push(s.clone());
                        let mut x = s.clone();
                        x.sess = None;
                        variants.push(x);
                    }
                }
                None => variants.push(s.clone()),
            }
            for mut v in variants {
                match (e.key, e.press) {
                    (k @ (0 | 1), true) => {
                        v.held[k] = true;
                        match &mut v.sess {
                            Some(se) if spec.pcancel && se.mods.contains(&k) => {
                                v.sess = None;
                            }
                            Some(se) => {
                                if !se.mods.contains(&k) {
                                    se.mods.push(k);
                                }
                                se.deadline = e.t + t_out;
                                se.last_os_delay = e.d;
                            }
                            None => v.sess = Some(Sess { mods: vec![k], deadline: e.t + t_out, new_pressed: vec![], last_os_delay: e.d }),
                        }
                    }
                    (k @ (0 | 1), false) => v.held[k] = false,
                    (p, true) => {
                        v.held[p] = true;
                        let mut mask = 0u8;
                        for k in 0..2 {
                            if v.held[k] {
                                mask |= 1 << k;
                            }
                        }
                        if let Some(se) = &mut v.sess {
                            for k in &se.mods {
                                mask |= 1 << k;
                            }
                            if spec.release {
                                se.new_pressed.push(p);
                            } else {
                                v.sess = None;
                            }
                        }
                        v.out.push(mask);
                    }
                    (p, false) => {
                        v.held[p] = false;
                        if let Some(se) = &v.sess {
                            if spec.release && se.new_pressed.contains(&p) {
                                v.sess = None;
                            }
                        }
                    }
                }
                next.push(v);
            }
        }
        // dedup states
        next.sort_by(|a, b| format!("{a:?}").cmp(&format!("{b:?}")));
        next.dedup_by(|a, b| format!("{a:?}") == format!("{b:?}"));
        states = next;
    }
    let mut outs: Vec<Vec<u8>> = states.into_iter().map(|s| s.out).collect();
    outs.sort();
    outs.dedup();
    outs
}

fn check(spec: &Spec, cfg: &str, sched: &[(u32, Ev)], first_new: usize, st: &mut Stats) -> Option<(String, String)> {
    let mut s = match Sim::new(cfg) {
        Ok(s) => s,
        Err(e) => return Some(("rejected".into(), e)),
    };
    st.evaluations += 1;
    let keys = [kc("a"), kc("b"), kc("c"), kc("d")];
    let mut ins: Vec<In> = vec![];
    let mut down = [false; 4];
    let mut now = 0u64;
    let mut q = 0u64;
    let mut push = |ins: &mut Vec<In>, now: u64, gap: u64, press: bool, key: usize, q: &mut u64| {
        *q = q.saturating_sub(gap);
        ins.push(In { t: now, d: *q, press, key });
        *q += 1;
    };
    for (i, (gap, ev)) in sched.iter().enumerate() {
        if *gap > 0 {
            if let Err(m) = s.step(Ev::T(*gap)) {
                return Some((panic_signature(&m), m));
            }
            now += *gap as u64;
        }
        let (press, code) = match ev {
            Ev::P(c) => (true, *c),
            Ev::R(c) => (false, *c),
            _ => unreachable!(),
        };
        let key = keys.iter().position(|k| *k == code).unwrap();
        push(&mut ins, now, *gap as u64, press, key, &mut q);
        down[key] = press;
        if let Err(m) = s.step(*ev) {
            return Some((panic_signature(&m), m));
        }
        if i >= first_new {
            st.transitions += 1;
            st.states.insert(s.digest());
        }
    }
    for k in 0..4 {
        if down[k] {
            let _ = s.step(Ev::T(1));
            now += 1;
            push(&mut ins, now, 1, false, k, &mut q);
            if let Err(m) = s.step(Ev::R(keys[k])) {
                return Some((panic_signature(&m), m));
            }
        }
    }
    if let Err(m) = s.step(Ev::T(spec.t + 8 * (spec.red + 2) + 20)) {
        return Some((panic_signature(&m), m));
    }
    st.validated += 1;
    let tr = s.trace();
    let tstr = crate::sim::trace_to_string(&tr);
    let held = crate::sim::os_down_set(&tr);
    if !held.is_empty() {
        return Some(("lingers".into(), format!("still held after settle: {held:?}; trace [{tstr}]")));
    }
    // observed: for each plain key press output, which one-shot outputs are down
    let plain_names: [&[&str]; 2] = [&["C", "Kb1"], &["D", "Kb2"]];
    let mut osdown: Vec<String> = vec![];
    let mut obs: Vec<u8> = vec![];
    let mut obs_keys: Vec<usize> = vec![];
    for (_, o) in &tr {
        match o {
            Out::Down(k) => {
                if let Some(pi) = plain_names.iter().position(|n| n.contains(&k.as_str())) {
                    let mut mask = 0u8;
                    for os in 0..2 {
                        let outs = spec.outs(os);
                        let active = if outs[0] == "<nav>" { k.starts_with("Kb") } else { outs.iter().all(|o| osdown.iter().any(|d| d == o)) };
                        if active {
                            mask |= 1 << os;
                        }
                    }
                    obs.push(mask);
                    obs_keys.push(2 + pi);
                } else if !osdown.contains(k) {
                    osdown.push(k.clone());
                }
            }
            Out::Up(k) => osdown.retain(|d| d != k),
            _ => {}
        }
    }
    let in_plain: Vec<usize> = ins.iter().filter(|e| e.press && e.key >= 2).map(|e| e.key).collect();
    if obs_keys != in_plain {
        return Some(("plain-keys-lost-or-reordered".into(), format!("plain presses {in_plain:?} but plain outputs {obs_keys:?}; trace [{tstr}]")));
    }
    let exps = expected(spec, &ins);
    if !exps.iter().any(|e| *e == obs) {
        // classify: extra modifier (lingering application) vs missing
        let e0 = &exps[0];
        let mut cls = "wrong-set";
        for (i, m) in obs.iter().enumerate() {
            if exps.iter().all(|e| e.get(i).map(|x| x & m == *x && x != m).unwrap_or(false)) {
                cls = "applied-too-long";
                break;
            }
            if exps.iter().all(|e| e.get(i).map(|x| x & m == *m && x != m).unwrap_or(false)) {
                cls = "not-applied";
                break;
            }
        }
        return Some((cls.to_string(), format!("one-shot masks (bit0=a, bit1=b) at the plain key presses: observed {obs:?}, acceptable {exps:?} (first {e0:?}); trace [{tstr}]")));
    }
    st.outcome(&format!("masks-{}", obs.iter().map(|m| m.to_string()).collect::<Vec<_>>().join("")));
    st.distinct_traces.insert(crate::sim::hash_str(&tstr));
    None
}

const STACK_KEYS: &[&str] = &["a", "b", "c", "d", "e", "f", "g", "h", "i", "j", "k", "l", "m", "n", "o", "p", "q", "r", "s", "t"];

fn run_stack(spec: &Spec, st: &mut Stats) {
    let mut cfg = String::from("(defcfg rapid-event-delay 5)\n(defsrc");
    for k in STACK_KEYS {
        cfg += &format!(" {k}");
    }
    cfg += " z)\n(deflayer base";
    for k in STACK_KEYS {
        cfg += &format!(" ({} 8 {k})", spec.name());
    }
    cfg += " z)\n";
    for n in 1..=20usize {
        let mut h = vec![];
        for k in &STACK_KEYS[..n] {
            h.push(Ev::P(kc(k)));
            h.push(Ev::T(1));
            h.push(Ev::R(kc(k)));
            h.push(Ev::T(1));
        }
        h.push(Ev::P(kc("z")));
        h.push(Ev::T(2));
        h.push(Ev::R(kc("z")));
        h.push(Ev::T(60));
        match crate::sim::run_fresh(&cfg, &h) {
            Err(m) => st.violation(mk_violation("C06", format!("stack::{}", panic_signature(&m)), format!("{n} stacked one-shots: {m}"), "history", &cfg, &h, json!({}))),
            Ok((_, tr)) => {
                st.evaluations += 1;
                st.validated += 1;
                let held = crate::sim::os_down_set(&tr);
                if !held.is_empty() {
                    st.violation(mk_violation("C06", "stack::lingers".into(), format!("{n} stacked one-shots then a plain key: still held {held:?}"), "history", &cfg, &h, json!({})));
                    continue;
                }
                // at the press of Z: which keys are down
                let mut dn: Vec<String> = vec![];
                let mut at_z: Option<Vec<String>> = None;
                for (_, o) in &tr {
                    match o {
                        Out::Down(k) if k == "Z" => at_z = Some(dn.clone()),
                        Out::Down(k) => dn.push(k.clone()),
                        Out::Up(k) => dn.retain(|x| x != k),
                        _ => {}
                    }
                }
                let Some(at_z) = at_z else {
                    st.violation(mk_violation("C06", "stack::plain-key-lost".into(), format!("{n} stacked one-shots: the plain key was never output"), "history", &cfg, &h, json!({})));
                    continue;
                };
                // within the timeout all n (n <= 16) must be active; taps are 2 ticks apart and T = 8 restarts
                if n <= 16 && at_z.len() != n {
                    st.violation(mk_violation("C06", "stack::not-all-combined".into(), format!("{n} stacked one-shots: only {:?} down at the plain key press", at_z), "history", &cfg, &h, json!({})));
                }
                st.outcome(&format!("stack-{}", if n <= 16 { "<=16" } else { ">16" }));
            }
        }
    }
    st.sample(json!({"family": "stacking", "variant": spec.name(), "n": "1..=20"}));
}

fn run_job(tier: Tier, idx: usize, st: &mut Stats) {
    let j = &jobs(tier)[idx];
    if j.stack {
        run_stack(&j.spec, st);
        return;
    }
    let cfg = j.spec.cfg();
    if j.first == Some(0) {
        if let Err(e) = Sim::new(&cfg) {
            st.configs_rejected += 1;
            st.violation(Violation { property: "C06".into(), signature: "rejected".into(), what: e.chars().take(200).collect(), detail: json!({"kind": "history", "cfg": cfg, "history": ""}) });
            return;
        }
        st.configs_accepted += 1;
    }
    let t = j.spec.t;
    let gaps = [0u32, 1, t - 1, t, t + 1];
    let keys = [kc("a"), kc("b"), kc("c"), kc("d")];
    let mut found: Vec<Violation> = vec![];
    let mut n_exec = 0u64;
    let mut handle = |sc: &[(u32, Ev)], common: usize, st: &mut Stats| {
        if found.len() >= 4 {
            return;
        }
        n_exec += 1;
        if let Some((sig, what)) = check(&j.spec, &cfg, sc, common, st) {
            let sig = format!("{}::{}", j.spec.name(), sig);
            if !found.iter().any(|f| f.signature == sig) {
                let hist = sched_to_hist(sc);
                found.push(mk_violation("C06", sig, format!("{} [{}]: {}", j.spec.tag(), crate::sim::hist_to_string(&hist), what), "history", &cfg, &hist, json!({"job": idx, "tier": tier.name()})));
            }
        }
    };
    if j.taps {
        // steps: tap a, tap b (composite: press, 1 tick, release), toggle a, toggle b, toggle c, toggle d
        // each preceded by a gap from {1, T-1, T+1}
        let gaps3 = [1u32, t - 1, t + 1];
        fn rec(depth: usize, n: usize, first: usize, gaps: &[u32; 3], keys: &[u16; 4], sched: &mut Vec<(u32, Ev)>, down: &mut [bool; 4], f: &mut dyn FnMut(&[(u32, Ev)])) {
            if depth == n {
                f(sched);
                return;
            }
            let mut choice = 0;
            for step in 0..6usize {
                let (k, tap) = if step < 2 { (step, true) } else { (step - 2, false) };
                if tap && down[k] {
                    choice += gaps.len();
                    continue;
                }
                for g in gaps {
                    if depth == 0 && choice != first {
                        choice += 1;
                        continue;
                    }
                    choice += 1;
                    let len0 = sched.len();
                    if tap {
                        sched.push((*g, Ev::P(keys[k])));
                        sched.push((1, Ev::R(keys[k])));
                    } else {
                        sched.push((*g, if down[k] { Ev::R(keys[k]) } else { Ev::P(keys[k]) }));
                        down[k] = !down[k];
                    }
                    rec(depth + 1, n, first, gaps, keys, sched, down, f);
                    if !tap {
                        down[k] = !down[k];
                    }
                    sched.truncate(len0);
                }
            }
        }
        let mut sched = vec![];
        let mut down = [false; 4];
        let mut prev: Vec<(u32, Ev)> = vec![];
        rec(0, j.n, j.first.unwrap_or(0), &gaps3, &keys, &mut sched, &mut down, &mut |sc| {
            let common = sc.iter().zip(prev.iter()).take_while(|(a, b)| a == b).count();
            prev = sc.to_vec();
            handle(sc, common, st);
        });
    } else {
        for_each_schedule(&keys, &gaps, j.n, j.first, &mut |sc, common| handle(sc, common, st));
    }
    if idx % 97 == 0 {
        st.sample(json!({"tag": j.spec.tag(), "cfg": cfg, "n": j.n, "tap_steps_family": j.taps, "schedules": n_exec}));
    }
    for v in found {
        st.violation(v);
    }
}

fn replay(d: &serde_json::Value) -> Vec<Violation> {
    let Some((cfg, h)) = detail_cfg_hist(d) else { return vec![] };
    let idx = d.get("extra").and_then(|e| e.get("job")).and_then(|x| x.as_u64());
    let Some(idx) = idx else {
        // stacking family
        let mut st = Stats::default();
        for j in jobs(Tier::Quick).iter().filter(|j| j.stack) {
            run_stack(&j.spec, &mut st);
        }
        return st.violations;
    };
    let tier = Tier::parse(d.get("extra").and_then(|e| e.get("tier")).and_then(|x| x.as_str()).unwrap_or("quick"));
    let j = &jobs(tier)[(idx as usize).min(jobs(tier).len() - 1)];
    let mut st = Stats::default();
    match check(&j.spec, &cfg, &hist_to_sched(&h), 0, &mut st) {
        Some((sig, what)) => vec![mk_violation("C06", format!("{}::{}", j.spec.name(), sig), what, "history", &cfg, &h, json!({}))],
        None => vec![],
    }
}
