//! C05 — tap-hold resolves every press to exactly one of tap / hold / timeout, on time.
use super::*;
use crate::par::{PropDef, Stats, Tier};
use crate::sim::{kc, Ev, Out, Sim};
use serde_json::json;
use std::sync::OnceLock;

pub fn def() -> PropDef {
    PropDef {
        id: "C05",
        level: "model_checking",
        n_jobs,
        job_level,
        run_job,
        replay,
        rule: "configs: 7 tap-hold variants (tap-hold, -press, -release, -press-timeout, -release-timeout, -release-keys (b), -except-keys (b)) x hold timeout H in {3,6} x tap-repress window in {0,3} x concurrent-tap-hold {no,yes}; a = the tap-hold (tap x, hold lsft, timeout-action lctl), b = plain key listed in the key list, c = plain key. Histories: EVERY physically consistent schedule of N events over press/release of a,b,c, each preceded by a gap from {0,1,H-1,H,H+1} (quick N=4, thorough N=5/6), then all keys released and settled. Second family: two tap-hold keys (a, b) + plain c, all schedules of N-1 events. Oracle on every execution: (E) exactly one decision output (tap key / hold key / timeout key) per press of a tap-hold key; (B) the sequence of press outputs, mapped back to physical keys, equals the sequence of physical presses (nothing lost, nothing before the decision, original order); (T) for every press that arrives with an empty queue and no pending decision (and, for the decision kind with concurrent-tap-hold no, for presses that find up to two plain-key events ahead of them in the queue: the hold timeout runs from the tick the press is dequeued, the tap judgement at the own release counts from its arrival): decision kind and tick equal TapHoldSpec (config.adoc): first documented trigger seen before the timeout, else own release before the timeout -> tap, else hold/timeout action exactly at the timeout tick; where a variant trigger and the own release become visible in the same millisecond either order is accepted; re-press within +-1 tick of the tap-repress window is a don't-care.",
        assumptions: &[
            "timing pinned as: an event arriving after n completed ticks is seen at tick n+1; hold fires H ticks after the press is dequeued (H-1 with concurrent-tap-hold); tap iff the release is seen before that tick",
            "fewer than 32 pending events",
        ],
        required_level,
        min_outcomes: 3,
    }
}

#[derive(Clone, Copy, Debug, PartialEq, Eq)]
enum Variant {
    Default,
    Press,
    Release,
    PressTimeout,
    ReleaseTimeout,
    ReleaseKeys,
    ExceptKeys,
}
const VARIANTS: [Variant; 7] = [Variant::Default, Variant::Press, Variant::Release, Variant::PressTimeout, Variant::ReleaseTimeout, Variant::ReleaseKeys, Variant::ExceptKeys];

#[derive(Clone, Debug)]
struct Spec {
    variant: Variant,
    h: u32,
    r: u32,
    conc: bool,
    two: bool,
}

impl Spec {
    fn action(&self, tap: &str, hold: &str, to: &str) -> String {
        let (r, h) = (self.r, self.h);
        match self.variant {
            Variant::Default => format!("(tap-hold {r} {h} {tap} {hold})"),
            Variant::Press => format!("(tap-hold-press {r} {h} {tap} {hold})"),
            Variant::Release => format!("(tap-hold-release {r} {h} {tap} {hold})"),
            Variant::PressTimeout => format!("(tap-hold-press-timeout {r} {h} {tap} {hold} {to})"),
            Variant::ReleaseTimeout => format!("(tap-hold-release-timeout {r} {h} {tap} {hold} {to})"),
            Variant::ReleaseKeys => format!("(tap-hold-release-keys {r} {h} {tap} {hold} (b))"),
            Variant::ExceptKeys => format!("(tap-hold-except-keys {r} {h} {tap} {hold} (b))"),
        }
    }
    fn cfg(&self) -> String {
        let a = self.action("x", "lsft", "lctl");
        let b = if self.two { self.action("y", "lalt", "rctl") } else { "b".to_string() };
        format!("(defcfg concurrent-tap-hold {})\n(defsrc a b c)\n(deflayer base {a} {b} c)\n", if self.conc { "yes" } else { "no" })
    }
    fn tag(&self) -> String {
        format!("{:?}/H{}/R{}/{}{}", self.variant, self.h, self.r, if self.conc { "conc" } else { "seq" }, if self.two { "/two" } else { "" })
    }
}

struct Job {
    spec: Spec,
    n: usize,
    first: usize, // index of the first (gap,event) choice: sharding
    level: u32,
}

fn jobs(tier: Tier) -> &'static Vec<Job> {
    static Q: OnceLock<Vec<Job>> = OnceLock::new();
    static T: OnceLock<Vec<Job>> = OnceLock::new();
    let cell = match tier {
        Tier::Quick => &Q,
        Tier::Thorough => &T,
    };
    cell.get_or_init(|| {
        let mut v = vec![];
        let levels: &[(u32, usize)] = match tier {
            Tier::Quick => &[(0, 4)],
            Tier::Thorough => &[(0, 4), (1, 5), (2, 6)],
        };
        for (lvl, n) in levels.iter().copied() {
            for variant in VARIANTS {
                for h in [3u32, 6] {
                    if n >= 6 && h != 3 {
                        continue;
                    }
                    for r in [0u32, 3] {
                        for conc in [false, true] {
                            for first in 0..15 {
                                v.push(Job { spec: Spec { variant, h, r, conc, two: false }, n, first, level: lvl });
                            }
                        }
                    }
                }
            }
            // two tap-hold keys: (E) and (B) only
            for variant in [Variant::Default, Variant::Press, Variant::Release, Variant::ReleaseTimeout] {
                for conc in [false, true] {
                    for first in 0..15 {
                        v.push(Job { spec: Spec { variant, h: 3, r: 0, conc, two: true }, n: n - 1, first, level: lvl });
                    }
                }
            }
        }
        v
    })
}

fn n_jobs(t: Tier) -> usize {
    jobs(t).len()
}
fn job_level(t: Tier, i: usize) -> u32 {
    jobs(t)[i].level
}
fn required_level(_t: Tier) -> u32 {
    0
}

/// One input event with its arrival time (= number of completed ticks when it arrives).
#[derive(Clone, Copy, Debug)]
struct In {
    t: u64,
    press: bool,
    key: usize, // 0 a, 1 b, 2 c
}

#[derive(Clone, Copy, Debug, PartialEq, Eq)]
enum Kind {
    Tap,
    Hold,
    Timeout,
}

/// TapHoldSpec: allowed (kinds, stamp) for the press at index `pi` of `ins` (a simple press).
/// Returns None when the spec leaves the case open (don't-care).
fn expected(spec: &Spec, ins: &[In], pi: usize) -> Option<(Vec<Kind>, u64)> {
    expected_q(spec, ins, pi, 0)
}

/// The same for a press that found `q` events of plain keys ahead of it in the queue: it is dequeued q
/// ticks later (one event per tick), so everything after it becomes visible q ticks later, while the hold
/// timeout still counts from the arrival of the press (the code compensates for the time in the queue).
fn expected_q(spec: &Spec, ins: &[In], pi: usize, q: u64) -> Option<(Vec<Kind>, u64)> {
    let p = ins[pi];
    let t0 = p.t;
    let heff = if spec.conc { spec.h as u64 - 1 } else { spec.h as u64 };
    let to_kind = match spec.variant {
        Variant::PressTimeout | Variant::ReleaseTimeout => Kind::Timeout,
        _ => Kind::Hold,
    };
    // tap-repress window: a press within R (+-1 don't-care) of the previous press of the same key
    if spec.r > 0 {
        if let Some(prev) = ins[..pi].iter().rev().find(|e| e.press && e.key == p.key) {
            let d = t0 - prev.t;
            // the window is armed at the previous press and counts down once per tick; it is reset
            // when a different key acts in between
            let other_between = ins[..pi].iter().any(|e| e.t >= prev.t && e.press && e.key != p.key && e.t <= t0);
            if !other_between {
                if d + 1 < spec.r as u64 {
                    return Some((vec![Kind::Tap], t0));
                }
                if d <= spec.r as u64 + 1 {
                    return None;
                }
            } else if d <= spec.r as u64 + 1 {
                return None;
            }
        }
    }
    let after: Vec<In> = ins[pi + 1..].to_vec();
    // The press is dequeued at tick t0+1; the pending decision looks at the queue from tick t0+2 on.
    // An event arriving at time t is therefore seen at tick vis(t) = max(t+1, t0+2); the timeout
    // fires at tick t0+1+heff. A decision taken at tick v is stamped v-1 in the output trace.
    // the hold timeout runs from the tick the press is dequeued (t0+1+q); only the tap-versus-hold
    // judgement at the key's own release is compensated for the q ticks spent in the queue
    let vis = |t: u64| (t + 1).max(t0 + 2 + q);
    // concurrent-tap-hold: the stored timeout is shortened by the time the press spent in the queue
    // (`timeout - delay`, delay then 0), so the timeout counts from the ARRIVAL of the press and the
    // tap judgement needs no compensation
    let timeout_tick = if spec.conc { t0 + 1 + heff } else { t0 + 1 + q + heff };
    let released_in_time = |r: &In| spec.conc || r.t - t0 < heff || q == 0;
    let mut ticks: Vec<u64> = after.iter().map(|e| vis(e.t)).collect();
    ticks.dedup();
    let listed = |k: usize| k == 1;
    let except = spec.variant == Variant::ExceptKeys;
    let mut timeout_done = false;
    for &v in ticks.iter().chain(std::iter::once(&u64::MAX)) {
        // did the timeout fire strictly before this group became visible?
        if !timeout_done && v > timeout_tick {
            timeout_done = true;
            let seen_before: Vec<In> = after.iter().filter(|e| vis(e.t) < v).copied().collect();
            if !except {
                return Some((vec![to_kind], timeout_tick - 1));
            } else if seen_before.iter().any(|e| e.press) {
                // an unlisted key is down: default behaviour, the timeout fires
                return Some((vec![Kind::Hold], timeout_tick - 1));
            }
        }
        if v == u64::MAX {
            break;
        }
        let visible: Vec<In> = after.iter().filter(|e| vis(e.t) <= v).copied().collect();
        let is_new = |e: &In| vis(e.t) == v;
        let own_rel = visible.iter().find(|e| !e.press && e.key == p.key).copied();
        // variant trigger: (kind, the event completing it)
        let mut trig: Option<(Kind, In)> = None;
        match spec.variant {
            Variant::Default => {}
            Variant::Press | Variant::PressTimeout => {
                if let Some(e) = visible.iter().find(|e| e.press) {
                    trig = Some((Kind::Hold, *e));
                }
            }
            Variant::Release | Variant::ReleaseTimeout | Variant::ReleaseKeys => {
                for (i, e) in visible.iter().enumerate() {
                    if e.press {
                        if spec.variant == Variant::ReleaseKeys && listed(e.key) {
                            trig = Some((Kind::Tap, *e));
                            break;
                        }
                        if let Some(r) = visible.iter().skip(i + 1).find(|r| !r.press && r.key == e.key) {
                            trig = Some((Kind::Hold, *r));
                            break;
                        }
                    }
                }
            }
            Variant::ExceptKeys => {
                if let Some(e) = visible.iter().find(|e| e.press) {
                    if listed(e.key) {
                        trig = Some((Kind::Tap, *e));
                    }
                }
            }
        }
        let at_timeout = v == timeout_tick;
        if except {
            let any_press = visible.iter().any(|e| e.press);
            if let Some((k, _)) = trig {
                return Some((vec![k], v - 1));
            }
            if own_rel.is_some() {
                // tap if released before the timeout, otherwise the hold action fires at the release
                return Some((vec![if v < timeout_tick && released_in_time(&own_rel.unwrap()) { Kind::Tap } else { Kind::Hold }], v - 1));
            }
            if any_press && v >= timeout_tick {
                return Some((vec![Kind::Hold], v - 1));
            }
            continue;
        }
        match (trig, own_rel) {
            (Some((k, te)), Some(re)) => {
                let mut ks = vec![k];
                if is_new(&te) && is_new(&re) && !ks.contains(&Kind::Tap) {
                    // both became visible in the same millisecond: either reading accepted
                    ks.push(Kind::Tap);
                }
                if at_timeout && !ks.contains(&to_kind) {
                    ks.push(to_kind);
                }
                return Some((ks, v - 1));
            }
            (Some((k, _)), None) => {
                let mut ks = vec![k];
                if at_timeout && !ks.contains(&to_kind) {
                    ks.push(to_kind);
                }
                return Some((ks, v - 1));
            }
            (None, Some(re)) => return Some((vec![if at_timeout || !released_in_time(&re) { to_kind } else { Kind::Tap }], v - 1)),
            (None, None) => {
                if at_timeout {
                    timeout_done = true;
                    return Some((vec![to_kind], v - 1));
                }
            }
        }
    }
    None
}

struct Exec {
    ins: Vec<In>,
    simple: Vec<bool>,
    /// Some(q): no decision pending, but q events of plain keys were still queued when the event arrived
    qdelay: Vec<Option<u64>>,
    decisions: Vec<(u64, Kind, usize)>, // (stamp, kind, key 0/1)
    press_outputs: Vec<usize>,          // physical key attributed to each press output, in output order
    press_inputs: Vec<usize>,
    trace_str: String,
}

fn execute(spec: &Spec, cfg: &str, sched: &[(u32, Ev)], first_new: usize, st: &mut Stats) -> Result<Exec, (String, String)> {
    let mut s = Sim::new(cfg).map_err(|e| ("rejected".to_string(), e))?;
    st.evaluations += 1;
    let keys = [kc("a"), kc("b"), kc("c")];
    let mut ins = vec![];
    let mut simple = vec![];
    let mut qdelay: Vec<Option<u64>> = vec![];
    let mut down = [false; 3];
    let mut now: u64 = 0;
    let mut step = |s: &mut Sim, e: Ev| s.step(e).map_err(|m| (panic_signature(&m), m));
    for (i, (gap, ev)) in sched.iter().enumerate() {
        if *gap > 0 {
            step(&mut s, Ev::T(*gap))?;
            now += *gap as u64;
        }
        let (press, code) = match ev {
            Ev::P(c) => (true, *c),
            Ev::R(c) => (false, *c),
            _ => unreachable!(),
        };
        let key = keys.iter().position(|k| *k == code).unwrap();
        let l = s.k.layout.b();
        simple.push(l.queue.is_empty() && l.waiting.is_none() && l.action_queue.is_empty());
        {
            let a_code = keys[0];
            let only_plain = l.queue.iter().all(|qe| match qe.event() {
                kanata_keyberon::layout::Event::Press(_, j) | kanata_keyberon::layout::Event::Release(_, j) => j != a_code,
            });
            let n = l.queue.len() as u64;
            qdelay.push(if !l.queue.is_empty() && n <= 2 && only_plain && l.waiting.is_none() && l.action_queue.is_empty() && !spec.two { Some(n) } else { None });
        }
        ins.push(In { t: now, press, key });
        down[key] = press;
        step(&mut s, *ev)?;
        if i >= first_new {
            st.transitions += 1;
            st.states.insert(s.digest());
        }
    }
    // completion: release what is still down (1 tick apart), then settle
    for k in 0..3 {
        if down[k] {
            step(&mut s, Ev::T(1))?;
            now += 1;
            let l = s.k.layout.b();
            simple.push(l.queue.is_empty() && l.waiting.is_none());
            qdelay.push(None);
            ins.push(In { t: now, press: false, key: k });
            step(&mut s, Ev::R(keys[k]))?;
        }
    }
    // settle: every queued event may wait for a whole decision (hold timeout + tap-repress window +
    // processing latency) before it is looked at
    step(&mut s, Ev::T(spec.h + 14 + ins.len() as u32 * (spec.h + 6)))?;
    let tr = s.trace();
    let mut decisions = vec![];
    let mut press_outputs = vec![];
    for (t, o) in &tr {
        if let Out::Down(k) = o {
            let (kind, key) = match k.as_str() {
                "X" => (Some(Kind::Tap), 0),
                "LShift" => (Some(Kind::Hold), 0),
                "LCtrl" => (Some(Kind::Timeout), 0),
                "Y" => (Some(Kind::Tap), 1),
                "LAlt" => (Some(Kind::Hold), 1),
                "RCtrl" => (Some(Kind::Timeout), 1),
                "B" => (None, 1),
                "C" => (None, 2),
                _ => (None, 9),
            };
            if let Some(kd) = kind {
                decisions.push((*t, kd, key));
            }
            press_outputs.push(key);
        }
    }
    let press_inputs = ins.iter().filter(|e| e.press).map(|e| e.key).collect();
    Ok(Exec { ins, simple, qdelay, decisions, press_outputs, press_inputs, trace_str: crate::sim::trace_to_string(&tr) })
}

fn sched_to_hist(sched: &[(u32, Ev)]) -> Vec<Ev> {
    let mut h = vec![];
    for (g, e) in sched {
        if *g > 0 {
            h.push(Ev::T(*g));
        }
        h.push(*e);
    }
    h
}

fn hist_to_sched(h: &[Ev]) -> Vec<(u32, Ev)> {
    let mut out = vec![];
    let mut gap = 0;
    for e in h {
        match e {
            Ev::T(n) => gap += n,
            e => {
                out.push((gap, *e));
                gap = 0;
            }
        }
    }
    out
}

fn check(spec: &Spec, cfg: &str, sched: &[(u32, Ev)], first_new: usize, st: &mut Stats) -> Option<(String, String)> {
    let ex = match execute(spec, cfg, sched, first_new, st) {
        Ok(e) => e,
        Err((sig, m)) => return Some((sig, m)),
    };
    st.validated += 1;
    // (E) exactly one decision per tap-hold press
    for key in 0..2usize {
        if key == 1 && !spec.two {
            continue;
        }
        let presses = ex.ins.iter().filter(|e| e.press && e.key == key).count();
        let decs = ex.decisions.iter().filter(|d| d.2 == key).count();
        if presses != decs {
            return Some((
                format!("E::{}", if decs > presses { "more-decisions-than-presses" } else { "fewer-decisions-than-presses" }),
                format!("{presses} presses of tap-hold key {} but {decs} tap/hold/timeout outputs; trace [{}]", ["a", "b"][key], ex.trace_str),
            ));
        }
    }
    // (B) order of press outputs = order of physical presses
    if ex.press_outputs != ex.press_inputs {
        return Some(("B::press-order".into(), format!("physical presses (0=a,1=b,2=c) {:?} but press outputs map to {:?}; trace [{}]", ex.press_inputs, ex.press_outputs, ex.trace_str)));
    }
    // (T) kind and tick for simple presses (single tap-hold key family)
    if !spec.two {
        let mut di = 0;
        for (i, e) in ex.ins.iter().enumerate() {
            if !(e.press && e.key == 0) {
                continue;
            }
            let d = ex.decisions.iter().filter(|d| d.2 == 0).nth(di).copied();
            di += 1;
            if !ex.simple[i] {
                // queued behind plain-key events only: the decision KIND is still determined (arrival-based
                // timeout); the tick is not pinned here
                if let Some(q) = ex.qdelay.get(i).copied().flatten() {
                    // (non-concurrent mode only: in concurrent mode several schedule classes disagree with this
                    // model and have not been analysed)
                    if q + 1 < spec.h as u64 {
                        if let (Some((kinds, _)), Some((dt, dk, _))) = (expected_q(spec, &ex.ins, i, q), d) {
                            st.count("presses_T_kind_checked_behind_queue", 1);
                            if kinds.len() == 1 && !kinds.contains(&dk) {
                                return Some((format!("T::kind-queued::{:?}-instead-of-{:?}", dk, kinds[0]), format!("press #{di} of a (arrival t={}, {q} plain-key event(s) ahead of it in the queue): spec {:?}, real {:?} at {dt}; trace [{}]", e.t, kinds, dk, ex.trace_str)));
                            }
                        }
                        continue;
                    }
                }
                st.count("presses_not_simple(T skipped)", 1);
                continue;
            }
            match expected(spec, &ex.ins, i) {
                None => st.count("presses_dont_care(T skipped)", 1),
                Some((kinds, stamp)) => {
                    st.count("presses_T_checked", 1);
                    let Some((dt, dk, _)) = d else { continue };
                    st.outcome(&format!("{:?}", dk));
                    if !kinds.contains(&dk) {
                        return Some((format!("T::kind::{:?}-instead-of-{:?}", dk, kinds[0]), format!("press #{di} of a (arrival t={}): spec {:?} at stamp {stamp}, real {:?} at {dt}; trace [{}]", e.t, kinds, dk, ex.trace_str)));
                    }
                    if dt != stamp {
                        return Some((format!("T::tick::{:?}::{}", dk, if dt > stamp { "late" } else { "early" }), format!("press #{di} of a (arrival t={}): spec {:?} at stamp {stamp}, real {:?} at {dt}; trace [{}]", e.t, kinds, dk, ex.trace_str)));
                    }
                }
            }
        }
    } else {
        st.outcome(&format!("two/{}", ex.decisions.len().min(3)));
    }
    st.distinct_traces.insert(crate::sim::hash_str(&ex.trace_str));
    None
}

fn run_job(tier: Tier, idx: usize, st: &mut Stats) {
    let j = &jobs(tier)[idx];
    let cfg = j.spec.cfg();
    if j.first == 0 {
        if let Err(e) = Sim::new(&cfg) {
            st.configs_rejected += 1;
            st.violation(Violation { property: "C05".into(), signature: "rejected".into(), what: e.chars().take(200).collect(), detail: json!({"kind": "history", "cfg": cfg, "history": ""}) });
            return;
        }
        st.configs_accepted += 1;
    }
    let h = j.spec.h;
    let gaps = [0u32, 1, h - 1, h, h + 1];
    let keys = [kc("a"), kc("b"), kc("c")];
    let mut found: Vec<Violation> = vec![];
    let mut sched: Vec<(u32, Ev)> = vec![];
    let mut down = [false; 3];
    let mut prev: Vec<(u32, Ev)> = vec![];
    // recursive enumeration with the first choice fixed by the job (sharding)
    fn rec(
        depth: usize,
        n: usize,
        first: usize,
        gaps: &[u32; 5],
        keys: &[u16; 3],
        sched: &mut Vec<(u32, Ev)>,
        down: &mut [bool; 3],
        f: &mut dyn FnMut(&[(u32, Ev)]),
    ) {
        if depth == n {
            f(sched);
            return;
        }
        let mut choice = 0;
        for k in 0..3 {
            let ev = if down[k] { Ev::R(keys[k]) } else { Ev::P(keys[k]) };
            for g in gaps {
                if depth == 0 && choice != first {
                    choice += 1;
                    continue;
                }
                choice += 1;
                sched.push((*g, ev));
                down[k] = !down[k];
                rec(depth + 1, n, first, gaps, keys, sched, down, f);
                down[k] = !down[k];
                sched.pop();
            }
        }
    }
    let mut n_exec = 0u64;
    rec(0, j.n, j.first, &gaps, &keys, &mut sched, &mut down, &mut |sc| {
        if found.len() >= 4 {
            return;
        }
        let common = sc.iter().zip(prev.iter()).take_while(|(a, b)| a == b).count();
        prev = sc.to_vec();
        n_exec += 1;
        if let Some((sig, what)) = check(&j.spec, &cfg, sc, common, st) {
            let sig = format!("{}::{}", if j.spec.two { "two".to_string() } else { format!("{:?}", j.spec.variant) }, sig);
            if !found.iter().any(|f| f.signature == sig) {
                let hist = sched_to_hist(sc);
                found.push(mk_violation("C05", sig, format!("{} [{}]: {}", j.spec.tag(), crate::sim::hist_to_string(&hist), what), "history", &cfg, &hist, json!({"job": idx, "tier": tier.name()})));
            }
        }
    });
    if idx % 173 == 0 {
        st.sample(json!({"tag": j.spec.tag(), "cfg": cfg, "n": j.n, "first_choice": j.first, "schedules": n_exec}));
    }
    for v in found {
        st.violation(v);
    }
}

fn replay(d: &serde_json::Value) -> Vec<Violation> {
    let Some((cfg, h)) = detail_cfg_hist(d) else { return vec![] };
    let idx = d.get("extra").and_then(|e| e.get("job")).and_then(|x| x.as_u64()).unwrap_or(0) as usize;
    let tier = Tier::parse(d.get("extra").and_then(|e| e.get("tier")).and_then(|x| x.as_str()).unwrap_or("quick"));
    let j = &jobs(tier)[idx.min(jobs(tier).len() - 1)];
    let mut st = Stats::default();
    let sched = hist_to_sched(&h);
    match check(&j.spec, &cfg, &sched, 0, &mut st) {
        Some((sig, what)) => {
            let sig = format!("{}::{}", if j.spec.two { "two".to_string() } else { format!("{:?}", j.spec.variant) }, sig);
            vec![mk_violation("C05", sig, what, "history", &cfg, &h, json!({}))]
        }
        None => vec![],
    }
}
