//! C15 — live reload is all-or-nothing: failure keeps the old config, success = restart.
//! Real files on disk, real `Kanata::new`, real `handle_time_ticks` (hook H3 injects the clock),
//! real `do_live_reload`; exhaustive over (old config, new file content, request kind, history before,
//! idle gap, continuation).
use super::*;
use crate::par::{PropDef, Stats, Tier};
use crate::sim::kc;
use kanata_state_machine::oskbd::{KeyEvent, KeyValue};
use kanata_state_machine::{Kanata, ValidatedArgs};
use kanata_parser::keys::OsCode;
use kanata_tcp_protocol::ServerMessage;
use serde_json::json;
use std::path::PathBuf;
use std::sync::mpsc::{sync_channel, Receiver, SyncSender};
use std::sync::OnceLock;

pub fn def() -> PropDef {
    PropDef {
        id: "C15",
        level: "fault_enumeration",
        n_jobs,
        job_level,
        run_job,
        replay,
        rule: "old configs: 11 state-bearing configs (plain, tap-hold, one-shot, layer-while-held, layer-switch, macro, caps-word, virtual key held, overrides, zippychord, deflocalkeys) each with lrld / lrld-next / lrld-prev / (lrld-num N) keys; new file content: {unchanged, 5 other valid configs (including the plain identity mapping without the old config's defzippy / overrides / virtual keys), lexically broken, unbalanced, unknown alias, bad number, a key name that only the old file's deflocalkeys defined, empty file, missing file, path is a directory, invalid UTF-8}; request kinds: lrld (file rewritten in place), lrld-next, lrld-prev, lrld-num 2, lrld-num 9 (out of range), repeated 1-3 times back to back. Histories before the request: EVERY sequence of <= 2 steps over {press a, press b, tap a, tap b, hold a 7 ms} (keys held, pending tap-hold, active one-shot, running macro, held layer), then the request, then EVERY idle gap in {0, 1, 999, 1000, 1001} ms with the keys still held or released first, then EVERY continuation of <= 2 of {tap a, tap b, chord a+b, hold a + tap b}. Driven through a transcription of the processing loop (can_block_update_idle_waiting / handle_input_event / the REAL handle_time_ticks via hook H3). Oracle: FAILURE: no ConfigFileReload message, and outputs + continuation outputs identical to the same run on a twin of the old config whose reload keys are no-ops. SUCCESS: applied only when no output key is down or after > 1000 idle ms; applied within 3 ms once allowed; exactly one ConfigFileReload followed by one LayerChange per applied reload; afterwards the first layer is active, nothing stays pressed (2 ticks), and the continuation's output equals that of a FRESH Kanata::new of the new file.",
        assumptions: &["permission-denied reads cannot be produced (sandbox runs as root)", "the xset side effect of linux-x11-repeat-delay-rate is excluded", "H3 sets last_tick = now - ms; the elapsed value returned by the real handle_time_ticks is checked on every call and an execution with a mismatch is re-run"],
        required_level,
        min_outcomes: 3,
    }
}

// ------------------------------------------------------------------------------------------------
// configs

const RELOAD_KEYS: &str = "lrld lrld-next lrld-prev (lrld-num 2) (lrld-num 9)";
const NOOP_KEYS: &str = "XX XX XX XX XX";

/// (tag, a, b, extra top-level, needs zippy file)
const OLD: &[(&str, &str, &str, &str)] = &[
    ("plain", "a", "b", ""),
    ("tap-hold", "(tap-hold 5 5 x lsft)", "b", ""),
    ("one-shot", "(one-shot 50 lsft)", "b", ""),
    ("layer-held", "(layer-while-held nav)", "b", ""),
    ("layer-switch", "(layer-switch nav)", "b", ""),
    ("macro", "(macro x 3 y 3 z)", "b", ""),
    ("caps-word", "(caps-word 50)", "b", ""),
    ("vkey-held", "(on-press press-vkey v1)", "b", ""),
    ("overrides", "lsft", "x", "(defoverrides (lsft x) (y))"),
    ("zippy", "a", "b", "(defzippy zippy.txt on-first-press-chord-deadline 20 idle-reactivate-time 5)"),
    // key names that exist only through this file's deflocalkeys (kx), or that it redefines (yen)
    ("localkeys", "kx", "yen", "(deflocalkeys-linux kx 45 yen 26)"),
];

fn old_cfg(i: usize, reload_keys: bool) -> String {
    let (_, a, b, extra) = OLD[i];
    format!(
        "(defcfg)\n(defsrc a b c r n p 1 2)\n(defvirtualkeys v1 w)\n(deflayer base {a} {b} c {})\n(deflayer nav 1 2 3 {})\n{extra}\n",
        if reload_keys { RELOAD_KEYS } else { NOOP_KEYS },
        if reload_keys { RELOAD_KEYS } else { NOOP_KEYS }
    )
}

#[derive(Clone, Debug, PartialEq)]
enum NewKind {
    Valid(usize), // index into NEW_VALID; usize::MAX = unchanged
    BrokenLex,
    Unbalanced,
    UnknownAlias,
    BadNumber,
    /// refers to a key name that only the OLD file's deflocalkeys defined: a fresh start rejects it
    UsesOldLocalKey,
    Empty,
    Missing,
    Directory,
    InvalidUtf8,
}

const NEW_VALID: &[&str] = &[
    // different mapping, same shape
    "(defcfg)\n(defsrc a b c r n p 1 2)\n(deflayer first 1 2 3 lrld lrld-next lrld-prev XX XX)\n",
    // tap-hold on b, layers renamed, no zippy / overrides
    "(defcfg)\n(defsrc a b c r n p 1 2)\n(deflayer l0 y (tap-hold 5 5 z lctl) c lrld XX XX XX XX)\n(deflayer l1 a b c _ _ _ _ _)\n",
    // overrides + different vkeys
    "(defcfg)\n(defsrc a b c r n p 1 2)\n(defvirtualkeys v9 q)\n(deflayer base lsft x c lrld XX XX XX XX)\n(defoverrides (lsft x) (z))\n",
    // zippy with another dictionary
    "(defcfg)\n(defsrc a b c r n p 1 2)\n(deflayer base a b c lrld XX XX XX XX)\n(defzippy zippy2.txt on-first-press-chord-deadline 20 idle-reactivate-time 5)\n",
    // the plain identity mapping with nothing else (no zippy, no overrides, no virtual keys)
    "(defcfg)\n(defsrc a b c r n p 1 2)\n(deflayer base a b c lrld XX XX XX XX)\n",
];

fn new_kinds() -> Vec<NewKind> {
    let mut v = vec![NewKind::Valid(usize::MAX)];
    for i in 0..NEW_VALID.len() {
        v.push(NewKind::Valid(i));
    }
    v.extend([NewKind::BrokenLex, NewKind::Unbalanced, NewKind::UnknownAlias, NewKind::BadNumber, NewKind::UsesOldLocalKey, NewKind::Empty, NewKind::Missing, NewKind::Directory, NewKind::InvalidUtf8]);
    v
}

fn new_content(k: &NewKind, old: &str) -> Option<Vec<u8>> {
    Some(match k {
        NewKind::Valid(usize::MAX) => old.as_bytes().to_vec(),
        NewKind::Valid(i) => NEW_VALID[*i].as_bytes().to_vec(),
        NewKind::BrokenLex => b"(defsrc a b c r n p 1 2)\n(deflayer base a \"unterminated b c)\n".to_vec(),
        NewKind::Unbalanced => format!("{old}\n(defalias x (multi a b)\n").into_bytes(),
        NewKind::UnknownAlias => "(defcfg)\n(defsrc a b c r n p 1 2)\n(deflayer base @nope b c lrld XX XX XX XX)\n".as_bytes().to_vec(),
        NewKind::BadNumber => "(defcfg)\n(defsrc a b c r n p 1 2)\n(deflayer base (tap-hold 5 70000 x y) b c lrld XX XX XX XX)\n".as_bytes().to_vec(),
        NewKind::UsesOldLocalKey => "(defcfg)\n(defsrc a b c r n p 1 2)\n(deflayer base kx b c lrld XX XX XX XX)\n".as_bytes().to_vec(),
        NewKind::Empty => vec![],
        NewKind::InvalidUtf8 => vec![0x28, 0x64, 0x65, 0x66, 0xff, 0xfe, 0x29],
        NewKind::Missing | NewKind::Directory => return None,
    })
}

#[derive(Clone, Copy, Debug, PartialEq)]
enum Req {
    Lrld,     // rewrite f0 in place, tap r
    Next,     // new content in f1, tap n
    Prev,     // new content in f2 (last), tap p
    Num2,     // new content in f1, tap key "1" = (lrld-num 2)
    Num9,     // out of range: nothing must happen
}

// ------------------------------------------------------------------------------------------------
// live instance driven through the loop transcription

struct Live {
    k: Box<Kanata>,
    tx: Option<SyncSender<ServerMessage>>,
    rx: Receiver<ServerMessage>,
    ms: u64,
    ms_elapsed: u16,
    msgs: Vec<(u64, String)>,
    last_input_ms: u64,
    clock_mismatch: bool,
}

impl Live {
    fn new(paths: Vec<PathBuf>) -> Result<Live, String> {
        let args = ValidatedArgs { paths, tcp_server_address: None, symlink_path: None, nodelay: true };
        let k = crate::sim::guarded(|| Kanata::new(&args)).map_err(|p| format!("PANIC {p}"))?.map_err(|e| format!("{e:?}"))?;
        let (tx, rx) = sync_channel(256);
        Ok(Live { k: Box::new(k), tx: Some(tx), rx, ms: 0, ms_elapsed: 0, msgs: vec![], last_input_ms: 0, clock_mismatch: false })
    }
    fn drain(&mut self) {
        while let Ok(m) = self.rx.try_recv() {
            let s = match m {
                ServerMessage::ConfigFileReload { .. } => "ConfigFileReload".to_string(),
                ServerMessage::LayerChange { new } => format!("LayerChange:{new}"),
                other => format!("{:?}", other).chars().take(30).collect(),
            };
            self.msgs.push((self.ms, s));
        }
    }
    fn tick(&mut self) -> Result<(), String> {
        let tx = self.tx.clone();
        let r = crate::sim::guarded(|| self.k.verif_handle_time_ticks(1, &tx)).map_err(|p| format!("PANIC {p}"))?.map_err(|e| format!("{e:?}"))?;
        if r != 1 {
            self.clock_mismatch = true;
        }
        self.ms_elapsed = r;
        self.drain();
        Ok(())
    }
    /// one millisecond of the loop without input
    fn idle_ms(&mut self, n: u32) -> Result<(), String> {
        for _ in 0..n {
            self.ms += 1;
            let e = self.ms_elapsed;
            let cb = crate::sim::guarded(|| self.k.can_block_update_idle_waiting(e)).map_err(|p| format!("PANIC {p}"))?;
            if cb {
                // the real loop blocks here: no tick
                self.ms_elapsed = 1;
                continue;
            }
            self.tick()?;
        }
        Ok(())
    }
    fn event(&mut self, press: bool, code: u16) -> Result<(), String> {
        self.ms += 1;
        self.last_input_ms = self.ms;
        let e = self.ms_elapsed;
        let _ = crate::sim::guarded(|| self.k.can_block_update_idle_waiting(e)).map_err(|p| format!("PANIC {p}"))?;
        let ev = KeyEvent { code: OsCode::from_u16(code).unwrap(), value: if press { KeyValue::Press } else { KeyValue::Release } };
        crate::sim::guarded(|| self.k.handle_input_event(&ev)).map_err(|p| format!("PANIC {p}"))?.map_err(|e| format!("{e:?}"))?;
        self.tick()
    }
    fn outs(&self) -> Vec<String> {
        self.k.kbd_out.outputs.events.iter().filter(|e| !e.starts_with("t:")).cloned().collect()
    }
    fn os_down(&self) -> Vec<String> {
        crate::sim::os_down_set(&crate::sim::parse_outputs(&self.k.kbd_out.outputs.events))
    }
    fn reloads(&self) -> Vec<u64> {
        self.msgs.iter().filter(|m| m.1 == "ConfigFileReload").map(|m| m.0).collect()
    }
}

#[derive(Clone, Copy, Debug, PartialEq)]
enum Pre {
    PressA,
    PressB,
    TapA,
    TapB,
    HoldA7,
}
const PRES: [Pre; 5] = [Pre::PressA, Pre::PressB, Pre::TapA, Pre::TapB, Pre::HoldA7];

#[derive(Clone, Copy, Debug, PartialEq)]
enum Cont {
    TapA,
    TapB,
    ChordAB,
    HoldATapB,
}
const CONTS: [Cont; 4] = [Cont::TapA, Cont::TapB, Cont::ChordAB, Cont::HoldATapB];

fn apply_pre(l: &mut Live, p: Pre, held: &mut Vec<u16>) -> Result<(), String> {
    let (a, b) = (kc("a"), kc("b"));
    match p {
        Pre::PressA => {
            if !held.contains(&a) {
                l.event(true, a)?;
                held.push(a);
            }
        }
        Pre::PressB => {
            if !held.contains(&b) {
                l.event(true, b)?;
                held.push(b);
            }
        }
        Pre::TapA => {
            if !held.contains(&a) {
                l.event(true, a)?;
                l.idle_ms(1)?;
                l.event(false, a)?;
            }
        }
        Pre::TapB => {
            if !held.contains(&b) {
                l.event(true, b)?;
                l.idle_ms(1)?;
                l.event(false, b)?;
            }
        }
        Pre::HoldA7 => {
            if !held.contains(&a) {
                l.event(true, a)?;
                held.push(a);
                l.idle_ms(7)?;
            }
        }
    }
    Ok(())
}

fn apply_cont(l: &mut Live, c: Cont) -> Result<(), String> {
    let (a, b) = (kc("a"), kc("b"));
    match c {
        Cont::TapA => {
            l.event(true, a)?;
            l.idle_ms(2)?;
            l.event(false, a)?;
            l.idle_ms(12)
        }
        Cont::TapB => {
            l.event(true, b)?;
            l.idle_ms(2)?;
            l.event(false, b)?;
            l.idle_ms(12)
        }
        Cont::ChordAB => {
            l.event(true, a)?;
            l.event(true, b)?;
            l.idle_ms(3)?;
            l.event(false, a)?;
            l.event(false, b)?;
            l.idle_ms(12)
        }
        Cont::HoldATapB => {
            l.event(true, a)?;
            l.idle_ms(8)?;
            l.event(true, b)?;
            l.idle_ms(2)?;
            l.event(false, b)?;
            l.idle_ms(2)?;
            l.event(false, a)?;
            l.idle_ms(12)
        }
    }
}

struct Case {
    old: usize,
    new: NewKind,
    req: Req,
    repeats: u8,
    pre: Vec<Pre>,
    release_before_gap: bool,
    gap: u32,
    conts: Vec<Cont>,
}

impl Case {
    fn describe(&self) -> String {
        format!("old={} new={:?} req={:?}x{} pre={:?} release_before_gap={} gap={} cont={:?}", OLD[self.old].0, self.new, self.req, self.repeats, self.pre, self.release_before_gap, self.gap, self.conts)
    }
}

fn workdir() -> PathBuf {
    let d = PathBuf::from(format!("/verif/work/c15-{}", std::process::id()));
    let _ = std::fs::create_dir_all(&d);
    d
}

fn write_files(dir: &PathBuf, old_text: &str) -> Vec<PathBuf> {
    // "ab b": follow-up chord, only available right after ab was activated
    let _ = std::fs::write(dir.join("zippy.txt"), "ab\tzip\nab b\tzq\n");
    let _ = std::fs::write(dir.join("zippy2.txt"), "ab\tother\nab a\tow\n");
    let paths: Vec<PathBuf> = (0..3).map(|i| dir.join(format!("f{i}.kbd"))).collect();
    for p in &paths {
        let _ = std::fs::remove_dir_all(p);
        let _ = std::fs::remove_file(p);
    }
    let _ = std::fs::write(&paths[0], old_text);
    // f1, f2 default: valid copies of the old config (so that Kanata::new's paths exist)
    let _ = std::fs::write(&paths[1], old_text);
    let _ = std::fs::write(&paths[2], old_text);
    paths
}

fn place_new(paths: &[PathBuf], target: usize, k: &NewKind, old_text: &str) {
    let p = &paths[target];
    let _ = std::fs::remove_dir_all(p);
    let _ = std::fs::remove_file(p);
    match k {
        NewKind::Missing => {}
        NewKind::Directory => {
            let _ = std::fs::create_dir_all(p);
        }
        _ => {
            let _ = std::fs::write(p, new_content(k, old_text).unwrap());
        }
    }
}

/// Runs a case; returns (violation signature, description) if the oracle fails.
fn run_case(c: &Case, st: &mut Stats) -> Result<Option<(String, String)>, String> {
    let dir = workdir();
    let old_text = old_cfg(c.old, true);
    let twin_text = old_cfg(c.old, false);
    let (a, b) = (kc("a"), kc("b"));
    let req_key = match c.req {
        Req::Lrld => kc("r"),
        Req::Next => kc("n"),
        Req::Prev => kc("p"),
        Req::Num2 => kc("1"),
        Req::Num9 => kc("2"),
    };
    let target = match c.req {
        Req::Lrld => 0,
        Req::Next | Req::Num2 => 1,
        Req::Prev => 2,
        Req::Num9 => 0,
    };
    let run = |text: &str, is_twin: bool, st: &mut Stats| -> Result<(Live, usize, Vec<u16>), String> {
        let paths = write_files(&dir, text);
        let mut l = Live::new(paths.clone())?;
        st.evaluations += 1;
        let mut held: Vec<u16> = vec![];
        l.idle_ms(3)?;
        for p in &c.pre {
            apply_pre(&mut l, *p, &mut held)?;
        }
        // the user edits the file, then requests the reload
        if !is_twin && c.req != Req::Num9 {
            place_new(&paths, target, &c.new, &old_text);
        }
        for _ in 0..c.repeats {
            l.event(true, req_key)?;
            l.idle_ms(1)?;
            l.event(false, req_key)?;
        }
        if c.release_before_gap {
            for k in held.drain(..) {
                l.event(false, k)?;
            }
        }
        l.idle_ms(c.gap)?;
        for k in held.drain(..) {
            l.event(false, k)?;
        }
        l.idle_ms(1100)?; // let a deferred reload happen and everything settle
        let layer_after_settle = l.k.layout.b().current_layer();
        let down_after_settle = l.os_down().len();
        let n_before_cont = l.outs().len();
        for ct in &c.conts {
            apply_cont(&mut l, *ct)?;
        }
        if l.clock_mismatch {
            // the real handle_time_ticks saw a different elapsed time than requested (the thread was
            // preempted between the hook setting last_tick and the function reading the clock): the
            // execution is not the one that was asked for; the caller re-runs the case
            return Err("clock mismatch".into());
        }
        Ok((l, n_before_cont, vec![a, b, layer_after_settle as u16, down_after_settle as u16]))
    };
    let (live, n0, aux) = run(&old_text, false, st)?;
    let layer_after_settle = aux[2];
    let down_after_settle = aux[3];
    if live.clock_mismatch {
        st.count("executions_with_clock_mismatch(re-run)", 1);
        return Ok(None);
    }
    st.validated += 1;
    let reloads = live.reloads();
    let valid = matches!(c.new, NewKind::Valid(_)) && c.req != Req::Num9;
    let cont_out: Vec<String> = live.outs()[n0..].to_vec();
    let desc = c.describe();
    if !valid {
        st.outcome("failure-path");
        if !reloads.is_empty() {
            return Ok(Some(("failure::reload-reported".into(), format!("{desc}: ConfigFileReload sent although the file cannot be loaded"))));
        }
        let (twin, n0t, _) = run(&twin_text, true, st)?;
        if twin.outs() != live.outs() || twin.outs()[n0t..] != cont_out[..] {
            return Ok(Some((
                "failure::behaviour-changed".into(),
                format!("{desc}: after the failed reload outputs {:?}, without any reload request {:?}", &live.outs(), &twin.outs()),
            )));
        }
        return Ok(None);
    }
    st.outcome("success-path");
    if reloads.is_empty() {
        return Ok(Some(("success::never-applied".into(), format!("{desc}: valid file but no ConfigFileReload within 1100 idle ms; messages {:?}", live.msgs))));
    }
    if reloads.len() > c.repeats as usize {
        return Ok(Some(("success::applied-more-often-than-requested".into(), format!("{desc}: {} reloads for {} requests", reloads.len(), c.repeats))));
    }
    // each ConfigFileReload is followed by exactly one LayerChange at the same ms
    for t in &reloads {
        let n_lc = live.msgs.iter().filter(|m| m.0 == *t && m.1.starts_with("LayerChange")).count();
        if n_lc != 1 {
            return Ok(Some(("success::layer-notification".into(), format!("{desc}: reload at ms {t} accompanied by {n_lc} LayerChange messages; {:?}", live.msgs))));
        }
    }
    if down_after_settle != 0 {
        return Ok(Some(("success::stays-pressed".into(), format!("{desc}: {down_after_settle} key(s) still pressed at the OS after the reload settled; outputs {:?}", live.outs()))));
    }
    if layer_after_settle != 0 {
        return Ok(Some(("success::not-first-layer".into(), format!("{desc}: layer {layer_after_settle} active after the reload"))));
    }
    // behaves like a fresh instance of the new file (this includes: nothing from before the reload is still
    // pressed, since the fresh instance starts with nothing pressed)
    let new_text = String::from_utf8(new_content(&c.new, &old_text).unwrap()).unwrap();
    let paths = write_files(&dir, &new_text);
    let mut fresh = Live::new(vec![paths[0].clone()])?;
    st.evaluations += 1;
    fresh.idle_ms(3)?;
    for ct in &c.conts {
        apply_cont(&mut fresh, *ct)?;
    }
    if fresh.clock_mismatch {
        return Err("clock mismatch".into());
    }
    if fresh.outs() != cont_out {
        return Ok(Some((
            "success::differs-from-fresh-start".into(),
            format!("{desc}: after the reload the continuation outputs {:?}, a fresh instance of the new file outputs {:?}", cont_out, fresh.outs()),
        )));
    }
    st.distinct_traces.insert(crate::sim::hash_str(&format!("{cont_out:?}")));
    Ok(None)
}

/// Timing family: when is a valid reload applied relative to output keys being down / idle time?
fn run_timing(old: usize, st: &mut Stats) -> Result<Option<(String, String)>, String> {
    let dir = workdir();
    let old_text = old_cfg(old, true);
    let b = kc("b");
    // (1) a physically held key that has an output key down: the reload waits for the release, or for one
    // second without any input
    for hold_ms in [0u32, 300, 999, 1500] {
        let paths = write_files(&dir, &old_text);
        let mut l = Live::new(paths.clone())?;
        st.evaluations += 1;
        l.idle_ms(3)?;
        l.event(true, b)?;
        l.idle_ms(3)?;
        place_new(&paths, 0, &NewKind::Valid(0), &old_text);
        l.event(true, kc("r"))?;
        l.idle_ms(1)?;
        l.event(false, kc("r"))?;
        let t_after_req = l.ms;
        l.idle_ms(hold_ms)?;
        let t_rel = l.ms;
        l.event(false, b)?;
        l.idle_ms(1200)?;
        if l.clock_mismatch {
            continue;
        }
        st.validated += 1;
        let r = l.reloads();
        if r.len() != 1 {
            return Ok(Some(("timing::count".into(), format!("old={} b held {hold_ms} ms across an lrld request: {} reloads; messages {:?}", OLD[old].0, r.len(), l.msgs))));
        }
        let at = r[0];
        // released within the second: at the release; held longer: after one idle second
        let (earliest, latest) = if hold_ms < 1000 { (t_rel, t_rel + 4) } else { (t_after_req + 1000, t_after_req + 1010) };
        if at < earliest || at > latest {
            return Ok(Some((
                if at < earliest { "timing::applied-while-key-down".into() } else { "timing::applied-late".into() },
                format!("old={} output key held {hold_ms} ms after the request (requested at ms {t_after_req}, released at ms {t_rel}): reload applied at ms {at}, allowed window [{earliest}, {latest}]", OLD[old].0),
            )));
        }
        st.outcome("timing-held-key-ok");
    }
    // (2) an output key that stays down with nobody holding anything (latched virtual key): the reload is
    // applied after one idle second, not before
    if OLD[old].0 == "vkey-held" {
        let paths = write_files(&dir, &old_text);
        let mut l = Live::new(paths.clone())?;
        st.evaluations += 1;
        l.idle_ms(3)?;
        l.event(true, kc("a"))?;
        l.idle_ms(2)?;
        l.event(false, kc("a"))?;
        l.idle_ms(5)?;
        place_new(&paths, 0, &NewKind::Valid(0), &old_text);
        l.event(true, kc("r"))?;
        l.idle_ms(1)?;
        l.event(false, kc("r"))?;
        let t_req = l.ms;
        l.idle_ms(1300)?;
        if !l.clock_mismatch {
            st.validated += 1;
            let r = l.reloads();
            if r.len() != 1 {
                return Ok(Some(("timing::latched-count".into(), format!("latched virtual key down, lrld requested: {} reloads in 1300 idle ms; messages {:?}", r.len(), l.msgs))));
            }
            if r[0] < t_req + 1000 || r[0] > t_req + 1010 {
                return Ok(Some((
                    if r[0] < t_req + 1000 { "timing::latched-applied-early".into() } else { "timing::latched-applied-late".into() },
                    format!("latched virtual key down: reload requested at ms {t_req}, applied at ms {} (expected after one idle second)", r[0]),
                )));
            }
            if !l.os_down().is_empty() {
                return Ok(Some(("timing::latched-stays-pressed".into(), format!("after the deferred reload the latched key is still down at the OS: {:?}", l.os_down()))));
            }
            st.outcome("timing-latched-ok");
        }
    }
    Ok(None)
}

// ------------------------------------------------------------------------------------------------

struct Job {
    old: usize,
    new: NewKind,
    timing: bool,
    level: u32,
}

fn jobs(tier: Tier) -> &'static Vec<Job> {
    static Q: OnceLock<Vec<Job>> = OnceLock::new();
    static T: OnceLock<Vec<Job>> = OnceLock::new();
    let cell = match tier {
        Tier::Quick => &Q,
        Tier::Thorough => &T,
    };
    cell.get_or_init(|| {
        let mut v = vec![];
        for old in 0..OLD.len() {
            v.push(Job { old, new: NewKind::Empty, timing: true, level: 0 });
            for new in new_kinds() {
                v.push(Job { old, new, timing: false, level: 0 });
            }
        }
        let _ = tier;
        v
    })
}

fn n_jobs(t: Tier) -> usize {
    jobs(t).len()
}
fn job_level(t: Tier, i: usize) -> u32 {
    jobs(t)[i].level
}
fn required_level(_t: Tier) -> u32 {
    0
}

fn cases_for(j: &Job, tier: Tier) -> Vec<Case> {
    let mut v = vec![];
    let reqs: &[Req] = &[Req::Lrld, Req::Next, Req::Prev, Req::Num2, Req::Num9];
    // pre-histories: all sequences of <= 2 (quick: <= 1 plus three 2-step ones)
    let mut pres: Vec<Vec<Pre>> = vec![vec![]];
    for p in PRES {
        pres.push(vec![p]);
    }
    if tier == Tier::Thorough {
        for p in PRES {
            for q in PRES {
                pres.push(vec![p, q]);
            }
        }
    } else {
        pres.push(vec![Pre::TapA, Pre::PressB]);
        pres.push(vec![Pre::PressA, Pre::TapB]);
        pres.push(vec![Pre::HoldA7, Pre::PressB]);
    }
    let mut conts: Vec<Vec<Cont>> = CONTS.iter().map(|c| vec![*c]).collect();
    if tier == Tier::Thorough {
        for c1 in CONTS {
            for c2 in CONTS {
                if c1 != c2 {
                    conts.push(vec![c1, c2]);
                }
            }
        }
    } else {
        conts.push(vec![Cont::TapA, Cont::ChordAB]);
    }
    for (ri, req) in reqs.iter().enumerate() {
        for (pi, pre) in pres.iter().enumerate() {
            for (gi, gap) in [0u32, 1, 999, 1000, 1001].iter().enumerate() {
                for rel in [true, false] {
                    // quick tier: rotate the continuation and the repeat count over the other dimensions
                    let (cont_list, reps): (Vec<&Vec<Cont>>, Vec<u8>) = if tier == Tier::Thorough {
                        (conts.iter().collect(), vec![1, 2])
                    } else {
                        (vec![&conts[(ri + pi + gi) % conts.len()]], vec![1 + ((ri + pi + gi + rel as usize) % 3) as u8])
                    };
                    for ct in &cont_list {
                        for rp in &reps {
                            // lrld-next / lrld-prev cycle through the files: repeated requests are only meaningful for
                            // the idempotent request kinds
                            if *rp > 1 && matches!(req, Req::Next | Req::Prev) {
                                continue;
                            }
                            if *gap >= 999 && tier == Tier::Quick && (pi + ri) % 2 == 1 {
                                continue; // long gaps cost ~1 ms each: half of them in quick
                            }
                            v.push(Case { old: j.old, new: j.new.clone(), req: *req, repeats: *rp, pre: pre.clone(), release_before_gap: rel, gap: *gap, conts: (*ct).clone() });
                        }
                    }
                }
            }
        }
    }
    v
}

fn run_job(tier: Tier, idx: usize, st: &mut Stats) {
    let j = &jobs(tier)[idx];
    // the old config must be accepted by the real parser
    if idx % (new_kinds().len() + 1) == 0 {
        if let Err(e) = crate::sim::Sim::new_with_files(&old_cfg(j.old, true).replace("(defzippy zippy.txt", "(defzippy file"), {
            let mut f = crate::sim::Files::default();
            f.insert("file".into(), "ab\tzip\n".into());
            f
        }) {
            st.configs_rejected += 1;
            st.violation(Violation { property: "C15".into(), signature: "old-config-rejected".into(), what: e.chars().take(300).collect(), detail: json!({"kind": "c15", "cfg": old_cfg(j.old, true), "history": ""}) });
            return;
        }
        st.configs_accepted += 1;
    }
    let mut found: Vec<Violation> = vec![];
    let mut push = |sig: String, what: String, detail: serde_json::Value, found: &mut Vec<Violation>| {
        if !found.iter().any(|f| f.signature == sig) && found.len() < 4 {
            found.push(Violation { property: "C15".into(), signature: sig, what, detail });
        }
    };
    if j.timing {
        match run_timing(j.old, st) {
            Ok(Some((sig, what))) => push(sig, what, json!({"kind": "timing", "cfg": old_cfg(j.old, true), "job": idx, "tier": tier.name()}), &mut found),
            Ok(None) => {}
            Err(e) => push(format!("timing::{}", panic_signature(&e)), e, json!({"kind": "timing", "cfg": old_cfg(j.old, true), "job": idx, "tier": tier.name()}), &mut found),
        }
    } else {
        let cases = cases_for(j, tier);
        let n = cases.len();
        for c in cases {
            crate::par::announce_value(&json!({"cfg": old_cfg(c.old, true), "history": c.describe()}));
            // re-run on clock mismatch (rare: needs a preemption of > 0.8 ms inside one hook call)
            let mut r = run_case(&c, st);
            let mut tries = 0;
            while matches!(&r, Err(e) if e.contains("clock mismatch")) && tries < 6 {
                st.count("executions_with_clock_mismatch(re-run)", 1);
                tries += 1;
                r = run_case(&c, st);
            }
            if matches!(&r, Err(e) if e.contains("clock mismatch")) {
                st.count("cases_skipped_after_7_clock_mismatches", 1);
                continue;
            }
            match r {
                Ok(None) => {}
                Ok(Some((sig, what))) => push(sig, what, json!({"kind": "case", "cfg": old_cfg(c.old, true), "history": c.describe(), "job": idx, "tier": tier.name()}), &mut found),
                Err(e) => push(panic_signature(&e), format!("{}: {e}", c.describe()), json!({"kind": "case", "cfg": old_cfg(c.old, true), "history": c.describe(), "job": idx, "tier": tier.name()}), &mut found),
            }
        }
        if idx % 13 == 0 {
            st.sample(json!({"old": OLD[j.old].0, "new": format!("{:?}", j.new), "cases": n}));
        }
    }
    let _ = std::fs::remove_dir_all(workdir());
    for v in found {
        st.violation(v);
    }
}

fn replay(d: &serde_json::Value) -> Vec<Violation> {
    let idx = d.get("job").and_then(|x| x.as_u64()).unwrap_or(0) as usize;
    let tier = Tier::parse(d.get("tier").and_then(|x| x.as_str()).unwrap_or("quick"));
    let mut st = Stats::default();
    run_job(tier, idx.min(n_jobs(tier) - 1), &mut st);
    st.violations
}
