//! C18 — virtual keys obey press / release / tap / toggle and their timed forms.
use super::*;
use crate::par::{PropDef, Stats, Tier};
use crate::sim::{kc, Ev, Out, Sim};
use serde_json::json;
use std::sync::OnceLock;

pub fn def() -> PropDef {
    PropDef {
        id: "C18",
        level: "model_checking",
        n_jobs,
        job_level,
        run_job,
        replay,
        rule: "config: virtual key v1 = x (and v2 = layer-while-held, observed through a layer-dependent key) operated by: physical keys with (on-press press|release|tap|toggle-vkey), (on-release toggle-vkey), a macro item, the TCP path (handle_fakekey_action exactly as tcp_server.rs calls it: press/release/tap/toggle), (hold-for-duration 4) and (hold-for-duration 14), and a completed defseq sequence. Histories: ALL sequences of N operations over this 12-operation alphabet with inter-operation gaps from {3,4,5,9,14,15} (quick: N=3 with all gaps and N=4 with gaps {3,9}; thorough: N=4 with all gaps), then settle; a race family with gaps {0,1} over the TCP operations only; a macro-collision family (a macro presses and releases v1 while another key carrying a custom action is pressed and released at EVERY tick offset of the macro: each virtual key shows exactly one pulse, nothing stays pressed); a layer family (the virtual key's action is layer-while-held; press / release / toggle from physical keys, a macro, on-release and the TCP path; ALL operation sequences of length <= 4 with a layer-dependent probe key tapped after every operation); on-idle family through the idle loop twin (can_block_update_idle_waiting/tick): idle time I in {4,6}, activity injected at every offset. Oracle VkeySpec: one boolean per virtual key (press sets, release clears, tap pulses, toggle flips; identical from every source); number of press pulses of x and final state equal the model's; hold-for-duration: x goes up exactly D ticks after the arrival of the most recent activation when nothing else touches the key in between, never earlier; on-idle: fires exactly once, I idle ticks after the last activity, not before; two on-idle actions pending together (idle times (4,20), (20,4), (6,6); the same virtual key and action kind, or two virtual keys; the second armed at every offset while the first is pending): each fires exactly once and none before its own idle time.",
        assumptions: &["operations are at least 3 ticks apart in the main family so that each has been processed before the next reads the key state (the 0/1-tick race family is reported separately)", "the TCP source is exercised through the function tcp_server.rs calls, not through a socket"],
        required_level,
        min_outcomes: 3,
    }
}

const CFG: &str = "(defcfg sequence-timeout 20)\n(defsrc a b c d e f g h i j k)\n(defvirtualkeys v1 x v2 (layer-while-held nav))\n(defseq v1 (j k))\n(deflayer base (on-press press-vkey v1) (on-press release-vkey v1) (on-press tap-vkey v1) (on-press toggle-vkey v1) (hold-for-duration 4 v1) (hold-for-duration 14 v1) (macro (on-press toggle-vkey v1)) (on-release toggle-vkey v1) sldr j k)\n(deflayer nav _ _ _ _ _ _ _ _ _ _ _)\n";

#[derive(Clone, Copy, Debug, PartialEq, Eq)]
enum Op {
    KPress,
    KRelease,
    KTap,
    KToggle,
    Hfd4,
    Hfd9,
    MacroToggle,
    OnReleaseToggle,
    TcpPress,
    TcpRelease,
    TcpTap,
    TcpToggle,
}
const OPS: [Op; 12] = [Op::KPress, Op::KRelease, Op::KTap, Op::KToggle, Op::Hfd4, Op::Hfd9, Op::MacroToggle, Op::OnReleaseToggle, Op::TcpPress, Op::TcpRelease, Op::TcpTap, Op::TcpToggle];

impl Op {
    fn events(&self) -> Vec<Ev> {
        let tapk = |k: &str| vec![Ev::P(kc(k)), Ev::T(1), Ev::R(kc(k))];
        match self {
            Op::KPress => tapk("a"),
            Op::KRelease => tapk("b"),
            Op::KTap => tapk("c"),
            Op::KToggle => tapk("d"),
            Op::Hfd4 => tapk("e"),
            Op::Hfd9 => tapk("f"),
            Op::MacroToggle => tapk("g"),
            Op::OnReleaseToggle => tapk("h"),
            // vkeys sorted by name: v1 = index 0
            Op::TcpPress => vec![Ev::Vk(0, 0)],
            Op::TcpRelease => vec![Ev::Vk(0, 1)],
            Op::TcpTap => vec![Ev::Vk(0, 2)],
            Op::TcpToggle => vec![Ev::Vk(0, 3)],
        }
    }
    fn kind(&self) -> u8 {
        // 0 press, 1 release, 2 tap, 3 toggle, 4 hfd4, 5 hfd9
        match self {
            Op::KPress | Op::TcpPress => 0,
            Op::KRelease | Op::TcpRelease => 1,
            Op::KTap | Op::TcpTap => 2,
            Op::KToggle | Op::MacroToggle | Op::OnReleaseToggle | Op::TcpToggle => 3,
            Op::Hfd4 => 4,
            Op::Hfd9 => 5,
        }
    }
}

enum Job {
    Main { first: usize, n: usize, level: u32, restricted: bool },
    Race,
    OnIdle,
    Sequence,
    /// virtual key whose action holds a layer, observed through a layer-dependent probe key
    LayerKey,
    /// a macro that presses and releases v1 while another key with a custom action (operating v2) is
    /// pressed / released at EVERY tick offset of the macro
    MacroCollision,
}

fn jobs(tier: Tier) -> &'static Vec<Job> {
    static Q: OnceLock<Vec<Job>> = OnceLock::new();
    static T: OnceLock<Vec<Job>> = OnceLock::new();
    let cell = match tier {
        Tier::Quick => &Q,
        Tier::Thorough => &T,
    };
    cell.get_or_init(|| {
        let mut v = vec![Job::Race, Job::OnIdle, Job::Sequence, Job::LayerKey, Job::MacroCollision];
        for first in 0..OPS.len() * GAPS.len() {
            v.push(Job::Main { first, n: 3, level: 0, restricted: false });
            if GAPS[first % GAPS.len()] == 3 || GAPS[first % GAPS.len()] == 9 {
                v.push(Job::Main { first, n: 4, level: 0, restricted: true });
            }
        }
        if tier == Tier::Thorough {
            for first in 0..OPS.len() * GAPS.len() {
                v.push(Job::Main { first, n: 4, level: 1, restricted: false });
            }
        }
        v
    })
}

fn n_jobs(t: Tier) -> usize {
    jobs(t).len()
}
fn job_level(t: Tier, i: usize) -> u32 {
    match &jobs(t)[i] {
        Job::Main { level, .. } => *level,
        _ => 0,
    }
}
fn required_level(_t: Tier) -> u32 {
    0
}

const GAPS: [u32; 6] = [3, 4, 5, 9, 14, 15];

/// Model: returns (expected number of press pulses of x, final pressed state, exact release stamps
/// expected from hold-for-duration deadlines with nothing interfering).
fn model(ops: &[(u64, Op)]) -> (usize, bool, Vec<u64>, bool) {
    let mut pressed = false;
    let mut pulses = 0usize;
    let mut deadline: Option<(u64, u64)> = None; // (deadline time, activation arrival)
    let mut exact: Vec<u64> = vec![];
    let mut ambiguous = false;
    let mut expire = |now: u64, pressed: &mut bool, deadline: &mut Option<(u64, u64)>, exact: &mut Vec<u64>| {
        if let Some((d, _)) = *deadline {
            if d <= now {
                if *pressed {
                    exact.push(d);
                }
                *pressed = false;
                *deadline = None;
            }
        }
    };
    for (i, (t, op)) in ops.iter().enumerate() {
        // activation time: key taps act when the press is processed (arrival + 1 tick); on-release one tick later
        let act = match op {
            Op::TcpPress | Op::TcpRelease | Op::TcpTap | Op::TcpToggle => *t,
            Op::OnReleaseToggle => *t + 2,
            Op::MacroToggle => *t + 2,
            _ => *t + 1,
        };
        // an operation landing within 2 ticks of a pending deadline: order of effects not fixed here
        if let Some((d, _)) = deadline {
            if d + 2 >= act && d <= act + 2 {
                ambiguous = true;
            }
        }
        expire(act, &mut pressed, &mut deadline, &mut exact);
        let _ = i;
        match op.kind() {
            0 => {
                if !pressed {
                    pulses += 1;
                }
                pressed = true;
            }
            1 => pressed = false,
            2 => {
                if !pressed {
                    pulses += 1;
                }
                pressed = false;
            }
            3 => {
                if !pressed {
                    pulses += 1;
                }
                pressed = !pressed;
            }
            k => {
                let d = if k == 4 { 4 } else { 14 };
                if !pressed {
                    pulses += 1;
                }
                pressed = true;
                deadline = Some((*t + d, *t));
            }
        }
    }
    expire(u64::MAX, &mut pressed, &mut deadline, &mut exact);
    (pulses, pressed, exact, ambiguous)
}

fn run_ops(ops: &[(u32, Op)], st: &mut Stats) -> Option<(String, String, Vec<Ev>)> {
    let mut h: Vec<Ev> = vec![];
    let mut now = 0u64;
    let mut timed: Vec<(u64, Op)> = vec![];
    for (gap, op) in ops {
        if *gap > 0 {
            h.push(Ev::T(*gap));
            now += *gap as u64;
        }
        timed.push((now, *op));
        for e in op.events() {
            if let Ev::T(n) = e {
                now += n as u64;
            }
            h.push(e);
        }
    }
    h.push(Ev::T(40));
    st.evaluations += 1;
    crate::par::announce(CFG, &h);
    let (s, tr) = match crate::sim::run_fresh(CFG, &h) {
        Ok(x) => x,
        Err(m) => return Some((panic_signature(&m), m, h)),
    };
    st.validated += 1;
    st.transitions += h.len() as u64;
    let _ = s;
    let downs: Vec<u64> = tr.iter().filter(|(_, o)| matches!(o, Out::Down(k) if k == "X")).map(|x| x.0).collect();
    let ups: Vec<u64> = tr.iter().filter(|(_, o)| matches!(o, Out::Up(k) if k == "X")).map(|x| x.0).collect();
    let final_down = crate::sim::os_down_set(&tr).contains(&"X".to_string());
    let (pulses, pressed, exact, ambiguous) = model(&timed);
    let tstr = crate::sim::trace_to_string(&tr);
    st.outcome(&format!("pulses{}/{}", downs.len().min(4), if final_down { "down" } else { "up" }));
    st.distinct_traces.insert(crate::sim::hash_str(&tstr));
    if ambiguous {
        st.count("histories_with_op_at_deadline(dont-care)", 1);
        return None;
    }
    let desc = || ops.iter().map(|(g, o)| format!("+{g}:{o:?}")).collect::<Vec<_>>().join(" ");
    if final_down != pressed {
        return Some(("final-state".into(), format!("ops [{}]: model says v1 is {} at the end, x is {} at the OS; trace [{tstr}]", desc(), if pressed { "pressed" } else { "released" }, if final_down { "down" } else { "up" }), h));
    }
    if downs.len() != pulses {
        // discriminator for the known finding: a hold-for-duration re-activation that follows an
        // explicit release while an earlier timed release is still pending
        let pat = ops.windows(2).enumerate().any(|(i, w)| matches!(w[0].1.kind(), 1 | 2 | 3) && matches!(w[1].1.kind(), 4 | 5) && ops[..=i].iter().any(|(_, o)| matches!(o.kind(), 4 | 5)));
        return Some((if pat { "pulse-count/hfd-after-explicit-release".into() } else { "pulse-count".into() }, format!("ops [{}]: model expects {pulses} press pulses of x, observed {}; trace [{tstr}]", desc(), downs.len()), h));
    }
    for d in &exact {
        if !ups.contains(d) {
            // never earlier; exactly at the deadline
            let earlier = ups.iter().any(|u| *u < *d && *u + 12 > *d);
            return Some((if earlier { "hold-for-duration-early".into() } else { "hold-for-duration-late".into() }, format!("ops [{}]: hold-for-duration should release x exactly at stamp {d}; releases observed at {ups:?}; trace [{tstr}]", desc()), h));
        }
    }
    None
}

fn run_main(first: usize, n: usize, restricted: bool, st: &mut Stats, found: &mut Vec<Violation>) {
    let total_first = OPS.len() * GAPS.len();
    let _ = total_first;
    let mut idx = vec![0usize; n];
    idx[0] = first;
    loop {
        let ops: Vec<(u32, Op)> = idx.iter().map(|i| (GAPS[i % GAPS.len()], OPS[i / GAPS.len()])).collect();
        let skip = restricted && ops.iter().any(|(g, _)| *g != 3 && *g != 9);
        if found.len() < 4 && !skip {
            if let Some((sig, what, h)) = run_ops(&ops, st) {
                if !found.iter().any(|f| f.signature == sig) {
                    found.push(mk_violation("C18", sig, what, "ops", CFG, &h, json!({"ops": idx.clone()})));
                }
            }
        }
        // next (positions 1..n vary; position 0 fixed)
        let mut k = 1;
        while k < n {
            idx[k] += 1;
            if idx[k] < OPS.len() * GAPS.len() {
                break;
            }
            idx[k] = 0;
            k += 1;
        }
        if k >= n {
            break;
        }
    }
}

fn run_race(st: &mut Stats, found: &mut Vec<Violation>) {
    // TCP operations 0 or 1 tick apart, all sequences of <= 4
    let tcp = [Op::TcpPress, Op::TcpRelease, Op::TcpTap, Op::TcpToggle];
    for n in 1..=4usize {
        let mut idx = vec![0usize; n];
        loop {
            let ops: Vec<(u32, Op)> = idx.iter().enumerate().map(|(pos, i)| (if pos == 0 { 3 } else { (i / 4) as u32 }, tcp[i % 4])).collect();
            if let Some((sig, what, h)) = run_ops(&ops, st) {
                let sig = format!("race::{sig}");
                if !found.iter().any(|f| f.signature == sig) {
                    found.push(mk_violation("C18", sig, what, "race", CFG, &h, json!({})));
                }
            }
            let mut k = 0;
            while k < n {
                idx[k] += 1;
                if idx[k] < 8 {
                    break;
                }
                idx[k] = 0;
                k += 1;
            }
            if k == n {
                break;
            }
        }
    }
    st.sample(json!({"family": "tcp race (gaps 0/1)", "sequences": "all of length <= 4 over press/release/tap/toggle"}));
}

fn run_on_idle(st: &mut Stats, found: &mut Vec<Violation>) {
    use super::c07::{run_loop, Step};
    for idle in [4u32, 6] {
        let cfg = format!("(defcfg)\n(defsrc a b)\n(defvirtualkeys v1 x)\n(deflayer base (on-idle {idle} tap-vkey v1) b)\n");
        let (a, b) = (kc("a"), kc("b"));
        // activity (a tap of b) injected `off` ms after the on-idle key's release; off = None: no activity
        for off in std::iter::once(None).chain((1..=idle + 3).map(Some)) {
            let mut steps = vec![Step::G(2), Step::E(true, a), Step::G(2), Step::E(false, a)];
            let mut last_activity_ms = 2 + 1 + 2 + 1; // ms of the release event
            if let Some(o) = off {
                steps.push(Step::G(o));
                steps.push(Step::E(true, b));
                steps.push(Step::E(false, b));
                last_activity_ms += o as u64 + 2;
            }
            steps.push(Step::G(60));
            st.evaluations += 1;
            match run_loop(&cfg, &steps, true, false) {
                Err(m) => found.push(Violation { property: "C18".into(), signature: format!("on-idle::{}", panic_signature(&m)), what: m, detail: json!({"kind": "on-idle", "cfg": cfg}) }),
                Ok(r) => {
                    st.validated += 1;
                    let xs: Vec<u64> = r.outputs.iter().filter(|(_, e)| e == "out:↓X").map(|x| x.0).collect();
                    // activity starting at or after the idle time has elapsed: the action fired before it
                    // (offset == idle - 1: boundary, either)
                    let (fired_before, dont_care) = match off {
                        Some(o) if o >= idle => (true, false),
                        Some(o) if o + 1 == idle => (false, true),
                        _ => (false, false),
                    };
                    st.outcome(&format!("on-idle-fired{}", xs.len()));
                    let after: Vec<&u64> = xs.iter().filter(|t| **t > last_activity_ms).collect();
                    let sig = if dont_care {
                        if xs.is_empty() { Some("on-idle::never-fired") } else { None }
                    } else if xs.is_empty() {
                        Some("on-idle::never-fired")
                    } else if xs.len() > 1 {
                        Some("on-idle::fired-more-than-once")
                    } else if fired_before {
                        // exactly once, after I idle ticks following the on-idle key's release (ms 6)
                        if xs[0] < 6 + idle as u64 { Some("on-idle::fired-before-idle-time") } else { None }
                    } else if let Some(t) = after.first() {
                        if **t < last_activity_ms + idle as u64 {
                            Some("on-idle::fired-before-idle-time")
                        } else if **t > last_activity_ms + idle as u64 + 8 {
                            Some("on-idle::fired-late")
                        } else {
                            None
                        }
                    } else {
                        Some("on-idle::fired-before-idle-time")
                    };
                    if let Some(sig) = sig {
                        if !found.iter().any(|f| f.signature == sig) {
                            found.push(Violation {
                                property: "C18".into(),
                                signature: sig.to_string(),
                                what: format!("(on-idle {idle} tap-vkey v1): activity offset {off:?}, last activity at ms {last_activity_ms}: x pressed at ms {xs:?}"),
                                detail: json!({"kind": "on-idle", "cfg": cfg, "history": super::c07::steps_to_string(&steps)}),
                            });
                        }
                    }
                }
            }
        }
    }
    st.sample(json!({"family": "on-idle through the idle loop twin", "idle": [4, 6]}));
}

/// Two on-idle actions pending at the same time (same virtual key and action kind, different idle times;
/// also two different virtual keys): each fires exactly once, none before its own idle time.
fn run_on_idle_two(st: &mut Stats, found: &mut Vec<Violation>) {
    use super::c07::{run_loop, Step};
    for (ia, ib) in [(4u32, 20u32), (20, 4), (6, 6)] {
        for same_vkey in [true, false] {
            if same_vkey && ia == ib {
                // two IDENTICAL requests (same key, kind and idle time) are one entry of the pending set and fire
                // once: the property does not say otherwise, not checked
                continue;
            }
            let cfg = format!(
                "(defcfg)\n(defsrc a b c)\n(defvirtualkeys v1 x v2 {})\n(deflayer base (on-idle {ia} tap-vkey v1) (on-idle {ib} tap-vkey {}) c)\n",
                if same_vkey { "z" } else { "y" },
                if same_vkey { "v1" } else { "v2" }
            );
            let (a, b) = (kc("a"), kc("b"));
            // b is tapped g ms after a's release, while a's on-idle is still pending (g + 2 < ia)
            for g in 0..ia.saturating_sub(2) {
                let mut steps = vec![Step::G(2), Step::E(true, a), Step::G(2), Step::E(false, a)];
                if g > 0 {
                    steps.push(Step::G(g));
                }
                steps.push(Step::E(true, b));
                steps.push(Step::E(false, b));
                let last = 6 + g as u64 + 2;
                steps.push(Step::G(120));
                st.evaluations += 1;
                match run_loop(&cfg, &steps, true, false) {
                    Err(m) => found.push(Violation { property: "C18".into(), signature: format!("on-idle-two::{}", panic_signature(&m)), what: m, detail: json!({"kind": "on-idle", "cfg": cfg}) }),
                    Ok(r) => {
                        st.validated += 1;
                        let xs: Vec<u64> = r.outputs.iter().filter(|(_, e)| e == "out:↓X").map(|x| x.0).collect();
                        let ys: Vec<u64> = r.outputs.iter().filter(|(_, e)| e == "out:↓Y").map(|x| x.0).collect();
                        st.outcome(&format!("on-idle-two-fired{}+{}", xs.len(), ys.len()));
                        // expected pulses: (idle time, which output)
                        let (lo, hi) = (ia.min(ib) as u64, ia.max(ib) as u64);
                        let slack = 16;
                        let sig = if same_vkey {
                            if xs.len() < 2 {
                                Some("on-idle-two::one-of-two-pending-never-fired")
                            } else if xs.len() > 2 {
                                Some("on-idle-two::fired-more-than-once")
                            } else if xs[0] < last + lo || xs[1] < last + hi {
                                Some("on-idle-two::fired-before-idle-time")
                            } else if xs[0] > last + lo + slack || xs[1] > last + lo + hi + slack {
                                Some("on-idle-two::fired-late")
                            } else {
                                None
                            }
                        } else if xs.len() != 1 || ys.len() != 1 {
                            Some(if xs.len() > 1 || ys.len() > 1 { "on-idle-two::fired-more-than-once" } else { "on-idle-two::one-of-two-pending-never-fired" })
                        } else if xs[0] < last + ia as u64 || ys[0] < last + ib as u64 {
                            Some("on-idle-two::fired-before-idle-time")
                        } else if xs[0] > last + lo + hi + slack || ys[0] > last + lo + hi + slack {
                            Some("on-idle-two::fired-late")
                        } else {
                            None
                        };
                        if let Some(sig) = sig {
                            if !found.iter().any(|f| f.signature == sig) {
                                found.push(Violation {
                                    property: "C18".into(),
                                    signature: sig.to_string(),
                                    what: format!("a=(on-idle {ia} tap-vkey v1), b=(on-idle {ib} tap-vkey {}), b tapped {g} ms after a, last activity at ms {last}: x pressed at ms {xs:?}, y at {ys:?}", if same_vkey { "v1" } else { "v2" }),
                                    detail: json!({"kind": "on-idle", "cfg": cfg, "history": super::c07::steps_to_string(&steps)}),
                                });
                            }
                        }
                    }
                }
            }
        }
    }
    st.sample(json!({"family": "two on-idle actions pending together", "idle pairs": [[4, 20], [20, 4], [6, 6]], "same virtual key": [true, false]}));
}

fn run_sequence(st: &mut Stats, found: &mut Vec<Violation>) {
    // completing the sequence "j k" after the leader taps v1: same effect as any other tap, from both states
    for pre in [None, Some(Op::TcpPress)] {
        let mut h = vec![Ev::T(3)];
        if let Some(p) = pre {
            h.extend(p.events());
            h.push(Ev::T(4));
        }
        for k in ["i", "j", "k"] {
            h.push(Ev::P(kc(k)));
            h.push(Ev::T(2));
            h.push(Ev::R(kc(k)));
            h.push(Ev::T(2));
        }
        h.push(Ev::T(30));
        st.evaluations += 1;
        match crate::sim::run_fresh(CFG, &h) {
            Err(m) => found.push(mk_violation("C18", format!("sequence::{}", panic_signature(&m)), m, "sequence", CFG, &h, json!({}))),
            Ok((_, tr)) => {
                st.validated += 1;
                let downs = tr.iter().filter(|(_, o)| matches!(o, Out::Down(k) if k == "X")).count();
                let final_down = crate::sim::os_down_set(&tr).contains(&"X".to_string());
                // tap from released: one pulse, ends released; tap from pressed: ends released, no new pulse
                let (want_pulses, want_final) = if pre.is_some() { (1, false) } else { (1, false) };
                st.outcome("sequence-tap");
                if downs != want_pulses || final_down != want_final {
                    found.push(mk_violation("C18", "sequence::tap-differs".into(), format!("sequence completion should tap v1 like every other source (pre-state {:?}): pulses {downs} final_down {final_down}; trace [{}]", pre, crate::sim::trace_to_string(&tr)), "sequence", CFG, &h, json!({})));
                }
            }
        }
    }
}

/// Layer family: v1 = (layer-while-held nav). Operations from physical keys (press / release / toggle,
/// on-release toggle, macro toggle) and the TCP path (press / release / toggle); after EVERY operation a
/// probe key is tapped: it outputs Y on nav and X on base. ALL operation sequences of length <= 4.
const LCFG: &str = "(defcfg)\n(defsrc a b d g h p)\n(defvirtualkeys v1 (layer-while-held nav))\n(deflayer base (on-press press-vkey v1) (on-press release-vkey v1) (on-press toggle-vkey v1) (macro (on-press toggle-vkey v1)) (on-release toggle-vkey v1) x)\n(deflayer nav _ _ _ _ _ y)\n";

fn run_layer_key(st: &mut Stats, found: &mut Vec<Violation>) {
    #[derive(Clone, Copy, Debug, PartialEq)]
    enum LOp {
        Press,
        Release,
        Toggle,
    }
    // (name, events, effect)
    let tapk = |k: &str| vec![Ev::P(kc(k)), Ev::T(1), Ev::R(kc(k))];
    let ops: Vec<(&str, Vec<Ev>, LOp)> = vec![
        ("KPress", tapk("a"), LOp::Press),
        ("KRelease", tapk("b"), LOp::Release),
        ("KToggle", tapk("d"), LOp::Toggle),
        ("MacroToggle", tapk("g"), LOp::Toggle),
        ("OnReleaseToggle", tapk("h"), LOp::Toggle),
        ("TcpPress", vec![Ev::Vk(0, 0)], LOp::Press),
        ("TcpRelease", vec![Ev::Vk(0, 1)], LOp::Release),
        ("TcpToggle", vec![Ev::Vk(0, 3)], LOp::Toggle),
    ];
    if let Err(e) = Sim::new(LCFG) {
        found.push(Violation { property: "C18".into(), signature: "layer-key/rejected".into(), what: e.chars().take(300).collect(), detail: json!({"kind": "layer-key", "cfg": LCFG, "history": ""}) });
        return;
    }
    let n = ops.len();
    let mut idx = vec![0usize; 4];
    for len in 1..=4usize {
        for i in idx.iter_mut() {
            *i = 0;
        }
        loop {
            // build and run
            let mut h: Vec<Ev> = vec![Ev::T(3)];
            let mut state = false;
            let mut expect: Vec<&str> = vec![];
            let mut names = vec![];
            for k in 0..len {
                let (name, evs, eff) = &ops[idx[k]];
                names.push(*name);
                h.extend(evs.iter().copied());
                h.push(Ev::T(4));
                state = match eff {
                    LOp::Press => true,
                    LOp::Release => false,
                    LOp::Toggle => !state,
                };
                // probe
                h.extend(tapk("p"));
                h.push(Ev::T(4));
                expect.push(if state { "Y" } else { "X" });
            }
            crate::par::announce(LCFG, &h);
            st.evaluations += 1;
            match crate::sim::run_fresh(LCFG, &h) {
                Err(m) => {
                    if found.len() < 3 {
                        found.push(mk_violation("C18", format!("layer-key/{}", panic_signature(&m)), m, "layer-key", LCFG, &h, json!({})));
                    }
                }
                Ok((_, tr)) => {
                    st.validated += 1;
                    st.transitions += h.len() as u64;
                    let got: Vec<String> = tr.iter().filter_map(|(_, o)| if let Out::Down(k) = o { Some(k.clone()) } else { None }).collect();
                    st.outcome(if state { "layer-key-on" } else { "layer-key-off" });
                    if got != expect && found.len() < 3 && !found.iter().any(|f| f.signature == "layer-key/state") {
                        found.push(mk_violation(
                            "C18",
                            "layer-key/state".into(),
                            format!("virtual key holding a layer, operations {names:?}: the probe key shows {got:?} after each operation (Y = layer on), the model (press sets, release clears, toggle flips) expects {expect:?}"),
                            "layer-key",
                            LCFG,
                            &h,
                            json!({}),
                        ));
                    }
                }
            }
            // next index vector
            let mut k = 0;
            while k < len {
                idx[k] += 1;
                if idx[k] < n {
                    break;
                }
                idx[k] = 0;
                k += 1;
            }
            if k == len {
                break;
            }
        }
    }
    st.sample(json!({"family": "layer-key", "cfg": LCFG, "sequences": "all operation sequences of length 1..4 over 8 operations"}));
}

/// Macro-collision family: "the same effect whether triggered from a key, a macro ...": the macro on a
/// presses v1, waits, releases v1; independently another key with a custom action (tap / press+release
/// of v2, or a mouse button) is pressed and released at EVERY offset of the macro's run. Both virtual
/// keys must each show exactly one press pulse and nothing may stay pressed.
const MCFG: &str = "(defcfg)\n(defsrc a b c d)\n(defvirtualkeys v1 x v2 y)\n(deflayer base (macro 2 (on-press press-vkey v1) 6 (on-press release-vkey v1)) (on-press tap-vkey v2) (multi (on-press press-vkey v2) (on-release release-vkey v2)) mlft)\n";

fn run_macro_collision(st: &mut Stats, found: &mut Vec<Violation>) {
    if let Err(e) = Sim::new(MCFG) {
        found.push(Violation { property: "C18".into(), signature: "macro-collision/rejected".into(), what: e.chars().take(300).collect(), detail: json!({"kind": "macro-collision", "cfg": MCFG, "history": ""}) });
        return;
    }
    for other in ["b", "c", "d"] {
        for off in 0..16u32 {
            for hold in [0u32, 1, 2, 5] {
                let mut h = vec![Ev::T(2), Ev::P(kc("a")), Ev::T(1), Ev::R(kc("a"))];
                // the other key goes down `off` ticks after the macro key's release and stays `hold` ticks
                if off > 0 {
                    h.push(Ev::T(off));
                }
                h.push(Ev::P(kc(other)));
                if hold > 0 {
                    h.push(Ev::T(hold));
                }
                h.push(Ev::R(kc(other)));
                h.push(Ev::T(40));
                crate::par::announce(MCFG, &h);
                st.evaluations += 1;
                match crate::sim::run_fresh(MCFG, &h) {
                    Err(m) => {
                        if found.len() < 3 {
                            found.push(mk_violation("C18", format!("macro-collision/{}", panic_signature(&m)), m, "macro-collision", MCFG, &h, json!({})));
                        }
                    }
                    Ok((_, tr)) => {
                        st.validated += 1;
                        st.transitions += h.len() as u64;
                        let xd = tr.iter().filter(|(_, o)| matches!(o, Out::Down(k) if k == "X")).count();
                        let xu = tr.iter().filter(|(_, o)| matches!(o, Out::Up(k) if k == "X")).count();
                        let yd = tr.iter().filter(|(_, o)| matches!(o, Out::Down(k) if k == "Y")).count();
                        let held = crate::sim::os_down_set(&tr);
                        st.outcome("macro-collision");
                        let want_y = if other == "d" { 0 } else { 1 };
                        if (xd != 1 || xu != 1 || yd != want_y || !held.is_empty()) && !found.iter().any(|f| f.signature == "macro-collision/lost-or-stuck") {
                            found.push(mk_violation(
                                "C18",
                                "macro-collision/lost-or-stuck".into(),
                                format!("macro presses and releases v1 (x) while key {other} (custom action) is pressed {off} ticks later for {hold} ticks: x pressed {xd}x released {xu}x, y pressed {yd}x (expected 1/1/{want_y}), still held {held:?}; trace [{}]", crate::sim::trace_to_string(&tr)),
                                "macro-collision",
                                MCFG,
                                &h,
                                json!({}),
                            ));
                        }
                    }
                }
            }
        }
    }
    st.sample(json!({"family": "macro-collision", "cfg": MCFG, "cases": "3 other keys x 16 offsets x 4 hold lengths"}));
}

fn run_job(tier: Tier, idx: usize, st: &mut Stats) {
    if idx == 0 {
        if let Err(e) = Sim::new(CFG) {
            st.violation(Violation { property: "C18".into(), signature: "rejected".into(), what: e.chars().take(300).collect(), detail: json!({"kind": "ops", "cfg": CFG, "history": ""}) });
            return;
        }
        st.configs_accepted += 1;
    }
    let mut found: Vec<Violation> = vec![];
    match &jobs(tier)[idx] {
        Job::Main { first, n, restricted, .. } => {
            run_main(*first, *n, *restricted, st, &mut found);
            if idx % 17 == 0 {
                st.sample(json!({"family": "main", "first_op": format!("{:?}", OPS[first / GAPS.len()]), "first_gap": GAPS[first % GAPS.len()], "n": n}));
            }
        }
        Job::Race => run_race(st, &mut found),
        Job::OnIdle => {
            run_on_idle(st, &mut found);
            run_on_idle_two(st, &mut found);
        }
        Job::Sequence => run_sequence(st, &mut found),
        Job::LayerKey => run_layer_key(st, &mut found),
        Job::MacroCollision => run_macro_collision(st, &mut found),
    }
    for v in found {
        st.violation(v);
    }
}

fn replay(d: &serde_json::Value) -> Vec<Violation> {
    let mut st = Stats::default();
    let mut found = vec![];
    match d.get("kind").and_then(|x| x.as_str()).unwrap_or("") {
        "on-idle" => {
            run_on_idle(&mut st, &mut found);
            run_on_idle_two(&mut st, &mut found);
        }
        "sequence" => run_sequence(&mut st, &mut found),
        "race" => run_race(&mut st, &mut found),
        "layer-key" => run_layer_key(&mut st, &mut found),
        "macro-collision" => run_macro_collision(&mut st, &mut found),
        _ => {
            if let Some(ops) = d.get("extra").and_then(|e| e.get("ops")).and_then(|o| o.as_array()) {
                let ops: Vec<(u32, Op)> = ops.iter().filter_map(|x| x.as_u64()).map(|i| (GAPS[i as usize % GAPS.len()], OPS[i as usize / GAPS.len()])).collect();
                if let Some((sig, what, h)) = run_ops(&ops, &mut st) {
                    found.push(mk_violation("C18", sig, what, "ops", CFG, &h, json!({})));
                }
            }
        }
    }
    found
}
