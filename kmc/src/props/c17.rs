//! C17 — tap-dance performs exactly the action for the number of taps.
use super::*;
use crate::par::{PropDef, Stats, Tier};
use crate::sim::{kc, Ev, Out, Sim};
use serde_json::json;
use std::sync::OnceLock;

pub fn def() -> PropDef {
    PropDef {
        id: "C17",
        level: "model_checking",
        n_jobs,
        job_level,
        run_job,
        replay,
        rule: "configs: action lists (x), (x y), (x y z), (x y z w) (taps family also with the last entry repeating its predecessor: (x x), (x y y), (x y z z) - the list length still counts) x {tap-dance, tap-dance-eager} x timeout T in {3,6} x rapid-event-delay {0,5}; a = the dance key, b = plain key. Histories: EVERY physically consistent schedule of N events over press/release of a and b, each preceded by a gap from {0,1,T-1,T,T+1} (quick N=5, thorough N=6/7), then released and settled. Tap-hold member family: (tap-dance T ((tap-hold 0 H x y) z)) held for EVERY length 1..T+H+8, alone, with another key pressed at every offset before the dance timeout, and with the dance key's press queued behind 2 or 4 events of another key that arrived in the same millisecond: the inner tap-hold's decision runs from the end of the dance (x if released within H of it, y if held past it, +-2 either). Taps family: EVERY sequence of U complete taps (press, 1 tick, release) of a / b with the gap before each tap from {1, T-1, T+1} (quick U=6, thorough U=7): reaches list exhaustion and restart (len+2 taps in a row). Oracle TapDanceSpec: taps are counted while each press of the dance key follows the previous press by less than T (gap == T: either reading accepted, but the press must be accounted for); the dance ends on timeout / press of another key / list exhausted; lazy: the sequence of press outputs equals [N-th action of each dance, interrupting keys after the chosen action], each chosen action pressed once and released not before the final release of the dance key; eager: the i-th tap of a dance presses the i-th action. Accounting invariant: the tap counts implied by the outputs sum to the number of physical presses of the dance key (no press swallowed, none doubled). After settle nothing is held.",
        assumptions: &["key actions in the lists, plus one family with a tap-hold member (layer members are covered by C01/C02 for crash and stuck-output, not for count)", "boundary gap == T is a don't-care between 'same dance' and 'new dance'"],
        required_level,
        min_outcomes: 3,
    }
}

#[derive(Clone, Debug)]
struct Spec {
    len: usize,
    eager: bool,
    t: u32,
    red: u32,
    /// the last list entry repeats its predecessor (x y y): the list LENGTH still counts
    dup: bool,
}
const ACT: [&str; 4] = ["x", "y", "z", "w"];
const ACTN: [&str; 4] = ["X", "Y", "Z", "W"];

impl Spec {
    fn cfg(&self) -> String {
        format!(
            "(defcfg rapid-event-delay {})\n(defsrc a b)\n(deflayer base ({} {} ({})) b)\n",
            self.red,
            if self.eager { "tap-dance-eager" } else { "tap-dance" },
            self.t,
            (0..self.len).map(|i| ACT[self.ai(i)]).collect::<Vec<_>>().join(" ")
        )
    }
    /// index of the action written at list position i
    fn ai(&self, i: usize) -> usize {
        if self.dup && self.len >= 2 && i == self.len - 1 {
            self.len - 2
        } else {
            i
        }
    }
    fn tag(&self) -> String {
        format!("{}/len{}{}/T{}/red{}", if self.eager { "eager" } else { "lazy" }, self.len, if self.dup { "dup" } else { "" }, self.t, self.red)
    }
}

struct Job {
    spec: Spec,
    n: usize,
    first: usize,
    level: u32,
    /// taps family: n units, each a complete tap (press, 1 tick, release) of a or b
    taps: bool,
    /// tap-hold member family (one job): the list's first item is a tap-hold
    th_member: bool,
}

fn jobs(tier: Tier) -> &'static Vec<Job> {
    static Q: OnceLock<Vec<Job>> = OnceLock::new();
    static T: OnceLock<Vec<Job>> = OnceLock::new();
    let cell = match tier {
        Tier::Quick => &Q,
        Tier::Thorough => &T,
    };
    cell.get_or_init(|| {
        let mut v = vec![];
        let levels: &[(u32, usize)] = match tier {
            Tier::Quick => &[(0, 5)],
            Tier::Thorough => &[(0, 5), (1, 6), (2, 7)],
        };
        for (lvl, n) in levels.iter().copied() {
            for len in 1..=4usize {
                for eager in [false, true] {
                    for t in [3u32, 6] {
                        if n >= 7 && t != 3 {
                            continue;
                        }
                        for red in [5u32, 0] {
                            for first in 0..10 {
                                v.push(Job { spec: Spec { len, eager, t, red, dup: false }, n, first, level: lvl, taps: false, th_member: false });
                            }
                        }
                    }
                }
            }
            if lvl == 0 {
                v.push(Job { spec: Spec { len: 2, eager: false, t: 6, red: 5, dup: false }, n: 0, first: 0, level: 0, taps: false, th_member: true });
            }
            // taps family (level 0 only): long runs of taps reach list exhaustion + restart (len + 2 taps)
            if lvl == 0 {
                let units = if tier == Tier::Quick { 6 } else { 7 };
                for len in 1..=4usize {
                    for eager in [false, true] {
                        for t in [3u32, 6] {
                            for red in [5u32, 0] {
                                for first in 0..6 {
                                    v.push(Job { spec: Spec { len, eager, t, red, dup: false }, n: units, first, level: 0, taps: true, th_member: false });
                                    if len >= 2 && t == 6 {
                                        v.push(Job { spec: Spec { len, eager, t, red, dup: true }, n: units, first, level: 0, taps: true, th_member: false });
                                    }
                                }
                            }
                        }
                    }
                }
            }
        }
        v
    })
}

fn n_jobs(t: Tier) -> usize {
    jobs(t).len()
}
fn job_level(t: Tier, i: usize) -> u32 {
    jobs(t)[i].level
}
fn required_level(_t: Tier) -> u32 {
    0
}

#[derive(Clone, Copy, Debug)]
struct In {
    t: u64,
    press: bool,
    key: usize,
}

/// All acceptable expected press-output sequences (boundary gaps branch). Each element: list of
/// output key names in order, plus for lazy dances the arrival time of the final release of the
/// dance key belonging to each dance output (for the held-until-final-release check).
fn expected(spec: &Spec, ins: &[In]) -> Vec<Vec<String>> {
    // walk presses; state = (count in current dance, time of last dance press, active)
    #[derive(Clone)]
    struct St {
        out: Vec<String>,
        count: usize,
        last: u64,
        active: bool,
    }
    let mut states = vec![St { out: vec![], count: 0, last: 0, active: false }];
    let t = spec.t as u64;
    // Queue delay of every event: events take effect one per millisecond, so an event that arrives
    // while k earlier events are still queued is processed k ticks late. The dance timer runs in
    // processing time; gaps within that skew of the timeout are don't-cares.
    let mut delays: Vec<u64> = vec![];
    {
        let mut q: u64 = 0;
        let mut last_t: u64 = 0;
        for e in ins {
            q = q.saturating_sub(e.t - last_t);
            last_t = e.t;
            delays.push(q);
            q += 1;
        }
    }
    let mut last_delay: u64 = 0;
    for (ei, e) in ins.iter().enumerate().filter(|(_, e)| e.press) {
        // rapid-event-delay pauses input processing for that many ticks after an output: same skew
        // (+2: a press that arrives while the previous dance is being resolved waits for that hand-off)
        let skew = delays[ei] + last_delay + spec.red as u64 + 2;
        if e.key == 0 {
            last_delay = delays[ei];
        }
        let mut next = vec![];
        for s in states {
            if e.key == 1 {
                // another key: ends an active dance (chosen action first), then its own output
                let mut s2 = s.clone();
                if s2.active {
                    if !spec.eager {
                        s2.out.push(ACTN[spec.ai(s2.count - 1)].to_string());
                    }
                    s2.active = false;
                    s2.count = 0;
                }
                s2.out.push("B".into());
                next.push(s2);
                continue;
            }
            // dance key press
            let mut options: Vec<bool> = vec![]; // true = continues the current dance
            if s.active {
                let g = e.t - s.last;
                if g + skew < t {
                    options.push(true);
                } else if g <= t + skew {
                    options.push(true);
                    options.push(false);
                } else {
                    options.push(false);
                }
            } else {
                options.push(false);
            }
            for cont in options {
                let mut s2 = s.clone();
                if !cont {
                    if s2.active && !spec.eager {
                        s2.out.push(ACTN[spec.ai(s2.count - 1)].to_string());
                    }
                    s2.count = 0;
                }
                s2.active = true;
                s2.count += 1;
                s2.last = e.t;
                if spec.eager {
                    s2.out.push(ACTN[spec.ai(s2.count - 1)].to_string());
                }
                if s2.count == spec.len {
                    // list exhausted: the dance ends now
                    if !spec.eager {
                        s2.out.push(ACTN[spec.ai(s2.count - 1)].to_string());
                    }
                    s2.active = false;
                    s2.count = 0;
                }
                next.push(s2);
            }
        }
        states = next;
    }
    states
        .into_iter()
        .map(|mut s| {
            if s.active && !spec.eager {
                s.out.push(ACTN[spec.ai(s.count - 1)].to_string());
            }
            s.out
        })
        .collect()
}

fn check(spec: &Spec, cfg: &str, sched: &[(u32, Ev)], first_new: usize, st: &mut Stats) -> Option<(String, String)> {
    let mut s = match Sim::new(cfg) {
        Ok(s) => s,
        Err(e) => return Some(("rejected".into(), e)),
    };
    st.evaluations += 1;
    let keys = [kc("a"), kc("b")];
    let mut ins: Vec<In> = vec![];
    let mut down = [false; 2];
    let mut now = 0u64;
    for (i, (gap, ev)) in sched.iter().enumerate() {
        if *gap > 0 {
            if let Err(m) = s.step(Ev::T(*gap)) {
                return Some((panic_signature(&m), m));
            }
            now += *gap as u64;
        }
        let (press, code) = match ev {
            Ev::P(c) => (true, *c),
            Ev::R(c) => (false, *c),
            _ => unreachable!(),
        };
        let key = keys.iter().position(|k| *k == code).unwrap();
        ins.push(In { t: now, press, key });
        down[key] = press;
        if let Err(m) = s.step(*ev) {
            return Some((panic_signature(&m), m));
        }
        if i >= first_new {
            st.transitions += 1;
            st.states.insert(s.digest());
        }
    }
    for k in 0..2 {
        if down[k] {
            let _ = s.step(Ev::T(1));
            now += 1;
            ins.push(In { t: now, press: false, key: k });
            if let Err(m) = s.step(Ev::R(keys[k])) {
                return Some((panic_signature(&m), m));
            }
        }
    }
    if let Err(m) = s.step(Ev::T(spec.t + 8 * (spec.red + 2) + 20)) {
        return Some((panic_signature(&m), m));
    }
    st.validated += 1;
    let tr = s.trace();
    let tstr = crate::sim::trace_to_string(&tr);
    let downs: Vec<String> = tr.iter().filter_map(|(_, o)| if let Out::Down(k) = o { Some(k.clone()) } else { None }).collect();
    // nothing held at the end
    let held = crate::sim::os_down_set(&tr);
    if !held.is_empty() {
        return Some(("stuck".into(), format!("still held after settle: {held:?}; trace [{tstr}]")));
    }
    // accounting: taps implied by outputs == presses of the dance key
    let presses_a = ins.iter().filter(|e| e.press && e.key == 0).count();
    let exps = expected(spec, &ins);
    if !exps.iter().any(|e| *e == downs) {
        // classify
        let implied: usize = if spec.eager { downs.iter().filter(|k| *k != "B").count() } else { downs.iter().filter_map(|k| ACTN.iter().position(|a| a == k)).map(|i| i + 1).sum() };
        // discriminate the circumstances of a swallowed press (used by the known-findings list)
        let apress: Vec<u64> = ins.iter().filter(|e| e.press && e.key == 0).map(|e| e.t).collect();
        let at_boundary = apress.windows(2).any(|w| w[1] - w[0] == spec.t as u64);
        let same_ms_repress = ins.windows(2).any(|w| !w[0].press && w[0].key == 0 && w[1].press && w[1].key == 0 && w[0].t == w[1].t);
        let swallowed_cls = if same_ms_repress {
            "press-swallowed/re-press-in-same-ms-as-release"
        } else if at_boundary {
            "press-swallowed/press-gap-equals-timeout"
        } else {
            "press-swallowed/other"
        };
        let cls = if implied < presses_a {
            swallowed_cls
        } else if implied > presses_a {
            "press-doubled"
        } else {
            "wrong-action-or-order"
        };
        return Some((cls.to_string(), format!("dance-key presses {presses_a}, press outputs {downs:?} (imply {implied} taps); acceptable: {:?}; trace [{tstr}]", exps)));
    }
    st.outcome(&format!("outputs-{}", downs.len().min(4)));
    st.distinct_traces.insert(crate::sim::hash_str(&tstr));
    // lazy: each chosen action released not before the final release of the dance key (held until final release)
    if !spec.eager {
        let last_rel_a = ins.iter().filter(|e| !e.press && e.key == 0).map(|e| e.t).max();
        if let Some(lr) = last_rel_a {
            // the LAST action's release must not precede the last physical release of the dance key
            if let Some((t_up, _)) = tr.iter().rev().find(|(_, o)| matches!(o, Out::Up(k) if ACTN.contains(&k.as_str()))) {
                if *t_up < lr {
                    return Some(("released-before-final-release".into(), format!("last chosen action released at {t_up} before the dance key's final release arrived at {lr}; trace [{tstr}]")));
                }
            }
        }
    }
    None
}

fn sched_to_hist(sched: &[(u32, Ev)]) -> Vec<Ev> {
    let mut h = vec![];
    for (g, e) in sched {
        if *g > 0 {
            h.push(Ev::T(*g));
        }
        h.push(*e);
    }
    h
}
fn hist_to_sched(h: &[Ev]) -> Vec<(u32, Ev)> {
    let mut out = vec![];
    let mut gap = 0;
    for e in h {
        match e {
            Ev::T(n) => gap += n,
            e => {
                out.push((gap, *e));
                gap = 0;
            }
        }
    }
    out
}

/// Tap-hold member family: (tap-dance T ((tap-hold 0 H x y) z)), lazy. The chosen action is a tap-hold
/// whose own decision starts when the dance ends: released within H of that instant -> x, held past it
/// -> y (+-2 ticks of processing latency around the boundary: either). ALL hold lengths 1..T+H+8, alone
/// and with another key pressed at every offset before the dance timeout (which ends the dance there).
fn run_th_member(st: &mut Stats, found: &mut Vec<Violation>) {
    const T: u32 = 6;
    const H: u32 = 8;
    for rapid in [5u32, 0] {
        let cfg = format!("(defcfg rapid-event-delay {rapid})\n(defsrc a b)\n(deflayer base (tap-dance {T} ((tap-hold 0 {H} x y) z)) b)\n");
        if let Err(e) = Sim::new(&cfg) {
            found.push(Violation { property: "C17".into(), signature: "th-member/rejected".into(), what: e.chars().take(200).collect(), detail: json!({"kind": "history", "cfg": cfg, "history": ""}) });
            return;
        }
        let (a, b) = (kc("a"), kc("b"));
        // interrupt offset 0 = no interrupting key; burst = events of the other key arriving in the same
        // millisecond BEFORE the dance key (its press then waits `burst` ticks in the queue: the dance,
        // and later the inner tap-hold, start that much later)
        for (intr, burst) in (0..T).map(|i| (i, 0u32)).chain([(0u32, 2u32), (0, 4)]) {
            for g in 1..=(T + H + 8) {
                if intr != 0 && intr >= g {
                    // the other key is pressed while a is still held
                    continue;
                }
                let mut h = vec![Ev::T(2)];
                for i in 0..burst {
                    h.push(if i % 2 == 0 { Ev::P(b) } else { Ev::R(b) });
                }
                h.push(Ev::P(a));
                let dance_end;
                if intr == 0 {
                    h.push(Ev::T(g));
                    h.push(Ev::R(a));
                    dance_end = T + burst; // timeout (the list has a second item, one tap does not exhaust it)
                } else {
                    h.push(Ev::T(intr));
                    h.push(Ev::P(b));
                    h.push(Ev::T(g - intr));
                    h.push(Ev::R(a));
                    h.push(Ev::T(1));
                    h.push(Ev::R(b));
                    dance_end = intr;
                }
                h.push(Ev::T(T + H + 20));
                crate::par::announce(&cfg, &h);
                st.evaluations += 1;
                match crate::sim::run_fresh(&cfg, &h) {
                    Err(m) => {
                        if found.len() < 3 {
                            found.push(mk_violation("C17", format!("th-member/{}", panic_signature(&m)), m, "history", &cfg, &h, json!({})));
                        }
                    }
                    Ok((_, tr)) => {
                        st.validated += 1;
                        st.transitions += h.len() as u64;
                        let downs: Vec<String> = tr.iter().filter_map(|(_, o)| if let Out::Down(k) = o { Some(k.clone()) } else { None }).collect();
                        // how long a stayed down after the dance ended
                        let held_after_end = g as i64 - dance_end as i64;
                        let mut ok_first: Vec<&str> = vec![];
                        if held_after_end < H as i64 - 2 {
                            ok_first.push("X");
                        } else if held_after_end > H as i64 + 2 {
                            ok_first.push("Y");
                        } else {
                            ok_first.push("X");
                            ok_first.push("Y");
                        }
                        // the burst's own taps of b come out first
                        let downs: Vec<String> = downs.into_iter().skip((burst / 2) as usize).collect();
                        let want_len = if intr == 0 { 1 } else { 2 };
                        let good = downs.len() == want_len && ok_first.contains(&downs[0].as_str()) && (intr == 0 || downs[1] == "B") && crate::sim::os_down_set(&tr).is_empty();
                        st.outcome(if downs.first().map(|d| d == "Y").unwrap_or(false) { "th-member-hold" } else { "th-member-tap" });
                        if !good && !found.iter().any(|f| f.signature == "lazy::th-member") {
                            found.push(mk_violation(
                                "C17",
                                "lazy::th-member".into(),
                                format!("tap-dance whose chosen action is (tap-hold 0 {H} x y): dance key held {g} ticks, dance ended at {dance_end} ({}), so the tap-hold ran for {held_after_end} ticks: expected first output in {ok_first:?}{}, observed presses {downs:?}; trace [{}]", if intr == 0 { "timeout" } else { "other key pressed" }, if intr == 0 { "" } else { " then B" }, crate::sim::trace_to_string(&tr)),
                                "history",
                                &cfg,
                                &h,
                                json!({}),
                            ));
                        }
                    }
                }
            }
        }
    }
    st.sample(json!({"family": "tap-hold member", "cases": "2 rapid-event-delays x 6 interrupt offsets x 22 hold lengths"}));
}

fn run_job(tier: Tier, idx: usize, st: &mut Stats) {
    let j = &jobs(tier)[idx];
    if j.th_member {
        let mut found = vec![];
        run_th_member(st, &mut found);
        for v in found {
            st.violation(v);
        }
        return;
    }
    let cfg = j.spec.cfg();
    if j.first == 0 {
        if let Err(e) = Sim::new(&cfg) {
            st.configs_rejected += 1;
            st.violation(Violation { property: "C17".into(), signature: "rejected".into(), what: e.chars().take(200).collect(), detail: json!({"kind": "history", "cfg": cfg, "history": ""}) });
            return;
        }
        st.configs_accepted += 1;
    }
    let t = j.spec.t;
    let gaps = [0u32, 1, t - 1, t, t + 1];
    let keys = [kc("a"), kc("b")];
    let mut found: Vec<Violation> = vec![];
    fn rec(depth: usize, n: usize, first: usize, gaps: &[u32; 5], keys: &[u16; 2], sched: &mut Vec<(u32, Ev)>, down: &mut [bool; 2], f: &mut dyn FnMut(&[(u32, Ev)])) {
        if depth == n {
            f(sched);
            return;
        }
        let mut choice = 0;
        for k in 0..2 {
            let ev = if down[k] { Ev::R(keys[k]) } else { Ev::P(keys[k]) };
            for g in gaps {
                if depth == 0 && choice != first {
                    choice += 1;
                    continue;
                }
                choice += 1;
                sched.push((*g, ev));
                down[k] = !down[k];
                rec(depth + 1, n, first, gaps, keys, sched, down, f);
                down[k] = !down[k];
                sched.pop();
            }
        }
    }
    // taps family: every sequence of n taps of a / b, gap before each tap from {1, T-1, T+1}
    fn rec_taps(depth: usize, n: usize, first: usize, gaps: &[u32; 3], keys: &[u16; 2], sched: &mut Vec<(u32, Ev)>, f: &mut dyn FnMut(&[(u32, Ev)])) {
        if depth == n {
            f(sched);
            return;
        }
        let mut choice = 0;
        for k in 0..2 {
            for g in gaps {
                if depth == 0 && choice != first {
                    choice += 1;
                    continue;
                }
                choice += 1;
                sched.push((*g, Ev::P(keys[k])));
                sched.push((1, Ev::R(keys[k])));
                rec_taps(depth + 1, n, first, gaps, keys, sched, f);
                sched.pop();
                sched.pop();
            }
        }
    }
    let mut sched = vec![];
    let mut down = [false; 2];
    let mut prev: Vec<(u32, Ev)> = vec![];
    let mut n_exec = 0u64;
    let tap_gaps = [1u32, t - 1, t + 1];
    let is_taps = j.taps;
    let mut drive = |f: &mut dyn FnMut(&[(u32, Ev)])| {
        if is_taps {
            rec_taps(0, j.n, j.first, &tap_gaps, &keys, &mut sched, f);
        } else {
            rec(0, j.n, j.first, &gaps, &keys, &mut sched, &mut down, f);
        }
    };
    drive(&mut |sc| {
        if found.len() >= 4 {
            return;
        }
        let common = sc.iter().zip(prev.iter()).take_while(|(a, b)| a == b).count();
        prev = sc.to_vec();
        n_exec += 1;
        if let Some((sig, what)) = check(&j.spec, &cfg, sc, common, st) {
            let sig = format!("{}::{}", if j.spec.eager { "eager" } else { "lazy" }, sig);
            if !found.iter().any(|f| f.signature == sig) {
                let hist = sched_to_hist(sc);
                found.push(mk_violation("C17", sig, format!("{} [{}]: {}", j.spec.tag(), crate::sim::hist_to_string(&hist), what), "history", &cfg, &hist, json!({"job": idx, "tier": tier.name()})));
            }
        }
    });
    if idx % 61 == 0 {
        st.sample(json!({"tag": j.spec.tag(), "cfg": cfg, "n": j.n, "schedules": n_exec}));
    }
    for v in found {
        st.violation(v);
    }
}

fn replay(d: &serde_json::Value) -> Vec<Violation> {
    if d.get("cfg").and_then(|x| x.as_str()).map(|c| c.contains("(tap-hold 0 8 x y)")).unwrap_or(false) {
        let mut st = Stats::default();
        let mut found = vec![];
        run_th_member(&mut st, &mut found);
        return found;
    }
    let Some((cfg, h)) = detail_cfg_hist(d) else { return vec![] };
    let idx = d.get("extra").and_then(|e| e.get("job")).and_then(|x| x.as_u64()).unwrap_or(0) as usize;
    let tier = Tier::parse(d.get("extra").and_then(|e| e.get("tier")).and_then(|x| x.as_str()).unwrap_or("quick"));
    let j = &jobs(tier)[idx.min(jobs(tier).len() - 1)];
    let mut st = Stats::default();
    match check(&j.spec, &cfg, &hist_to_sched(&h), 0, &mut st) {
        Some((sig, what)) => vec![mk_violation("C17", format!("{}::{}", if j.spec.eager { "eager" } else { "lazy" }, sig), what, "history", &cfg, &h, json!({}))],
        None => vec![],
    }
}
