//! C08 — macros play exactly their key list, in order, and always end with keys released.
use super::*;
use crate::par::{PropDef, Stats, Tier};
use crate::sim::{kc, Ev, Out, Sim};
use serde_json::json;
use std::sync::OnceLock;

pub fn def() -> PropDef {
    PropDef {
        id: "C08",
        level: "model_checking",
        n_jobs,
        job_level,
        run_job,
        replay,
        rule: "bodies: ALL sequences of <= L items (quick L=3, thorough L=4) over {x, y, S-x, delay 2, C-(x y), (x y), S-(x C-(y)), (unicode ü)} (up to L=3 also over the repeating groups A-(x 2 2 y), A-((unicode ü) (unicode ü) x x), (y 3 3 (unicode ü) (unicode ü))) x the 8 macro variants (macro, -release-cancel, -cancel-on-press, -release-cancel-and-cancel-on-press and their macro-repeat forms). Histories per (body, variant) with expanded duration n ticks: press the macro key and release it at EVERY offset 0..n+3 (and hold past the end); with another key (a plain key, and a mouse-button key, i.e. one that carries a custom action) pressed at EVERY offset 0..n+3 (held 2 ticks) while the macro key is tapped or held; plus the concurrency family: 1..6 different macros (disjoint keys) started on consecutive ticks (crosses the 4-slot ring). Oracle: independent expansion of the body (config.adoc: a key = press+release; output chord = press in order, release in reverse; MODS-(...) = mods down, contents, mods up; numbers = delays; nested lists inline): the projection of the real output onto the macro's keys equals the expansion (for the repeat forms: whole rounds); for cancel variants (cancel-on-press of the repeat forms: during the first round only — the documentation leaves later rounds open) a prefix of it followed by the releases of what the prefix left pressed, complete when no cancel event happened, and no step later than the cancel event (+2 ticks of processing slack); consecutive macro steps on distinct ticks; gaps >= stated delays; a new round of a repeating macro starts only while its key is held (slack 2); after settle no macro key is held.",
        assumptions: &["release order among several held modifier prefixes is not fixed by the documentation; bodies use one modifier per prefix", "processing slack of 2 ticks around cancel / release instants"],
        required_level,
        min_outcomes: 3,
    }
}

const ITEMS: &[&str] = &["x", "y", "S-x", "2", "C-(x y)", "(x y)", "S-(x C-(y))", "(unicode ü)", "A-(x 2 2 y)", "A-((unicode ü) (unicode ü) x x)", "(y 3 3 (unicode ü) (unicode ü))"];
/// the first BASE_ITEMS entries form the alphabet of the deepest level; the rest (groups that repeat an
/// item: two equal delays, the same custom item or the same key twice in a row) are used up to length 3
const BASE_ITEMS: usize = 8;
const VARIANTS: &[(&str, bool, bool, bool)] = &[
    // (name, repeat, cancel on release, cancel on press)
    ("macro", false, false, false),
    ("macro-release-cancel", false, true, false),
    ("macro-cancel-on-press", false, false, true),
    ("macro-release-cancel-and-cancel-on-press", false, true, true),
    ("macro-repeat", true, false, false),
    ("macro-repeat-release-cancel", true, true, false),
    ("macro-repeat-cancel-on-press", true, false, true),
    ("macro-repeat-release-cancel-and-cancel-on-press", true, true, true),
];

#[derive(Clone, Debug, PartialEq)]
enum Stp {
    Down(&'static str),
    Up(&'static str),
    Uni,
    Delay(u64),
}

fn expand_item(i: usize, out: &mut Vec<Stp>) {
    use Stp::*;
    match ITEMS[i] {
        "x" => out.extend([Down("X"), Up("X")]),
        "y" => out.extend([Down("Y"), Up("Y")]),
        "S-x" => out.extend([Down("LShift"), Down("X"), Up("X"), Up("LShift")]),
        "2" => out.push(Delay(2)),
        "C-(x y)" => out.extend([Down("LCtrl"), Down("X"), Up("X"), Down("Y"), Up("Y"), Up("LCtrl")]),
        "(x y)" => out.extend([Down("X"), Up("X"), Down("Y"), Up("Y")]),
        "S-(x C-(y))" => out.extend([Down("LShift"), Down("X"), Up("X"), Down("LCtrl"), Down("Y"), Up("Y"), Up("LCtrl"), Up("LShift")]),
        "A-(x 2 2 y)" => out.extend([Down("LAlt"), Down("X"), Up("X"), Delay(2), Delay(2), Down("Y"), Up("Y"), Up("LAlt")]),
        "A-((unicode ü) (unicode ü) x x)" => out.extend([Down("LAlt"), Uni, Uni, Down("X"), Up("X"), Down("X"), Up("X"), Up("LAlt")]),
        "(y 3 3 (unicode ü) (unicode ü))" => out.extend([Down("Y"), Up("Y"), Delay(3), Delay(3), Uni, Uni]),
        _ => out.push(Uni),
    }
}

fn bodies(max_items: usize, nitems: usize) -> Vec<Vec<usize>> {
    let mut out = vec![];
    for len in 1..=max_items {
        let mut idx = vec![0usize; len];
        loop {
            if idx.iter().any(|i| ITEMS[*i] != "2") {
                out.push(idx.clone());
            }
            let mut k = 0;
            while k < len {
                idx[k] += 1;
                if idx[k] < nitems {
                    break;
                }
                idx[k] = 0;
                k += 1;
            }
            if k == len {
                break;
            }
        }
    }
    out
}

enum Job {
    Body { body: Vec<usize>, level: u32 },
    Concurrent,
}

fn jobs(tier: Tier) -> &'static Vec<Job> {
    static Q: OnceLock<Vec<Job>> = OnceLock::new();
    static T: OnceLock<Vec<Job>> = OnceLock::new();
    let cell = match tier {
        Tier::Quick => &Q,
        Tier::Thorough => &T,
    };
    cell.get_or_init(|| {
        let mut v = vec![Job::Concurrent];
        for b in bodies(3, ITEMS.len()) {
            v.push(Job::Body { body: b, level: 0 });
        }
        if tier == Tier::Thorough {
            for b in bodies(4, BASE_ITEMS).into_iter().filter(|b| b.len() == 4) {
                v.push(Job::Body { body: b, level: 1 });
            }
        }
        v
    })
}

fn n_jobs(t: Tier) -> usize {
    jobs(t).len()
}
fn job_level(t: Tier, i: usize) -> u32 {
    match &jobs(t)[i] {
        Job::Body { level, .. } => *level,
        _ => 0,
    }
}
fn required_level(_t: Tier) -> u32 {
    0
}

fn cfg_for(body: &[usize], variant: &str) -> String {
    let text: Vec<&str> = body.iter().map(|i| ITEMS[*i]).collect();
    format!("(defcfg)\n(defsrc a b c)\n(deflayer base ({variant} {}) b mlft)\n", text.join(" "))
}

const MKEYS: [&str; 5] = ["X", "Y", "LShift", "LCtrl", "LAlt"];

/// projection of the trace on the macro's outputs
fn project(s: &Sim) -> Vec<(u64, Stp)> {
    s.trace()
        .into_iter()
        .filter_map(|(t, o)| match o {
            Out::Down(k) => MKEYS.iter().find(|m| **m == k).map(|m| (t, Stp::Down(m))),
            Out::Up(k) => MKEYS.iter().find(|m| **m == k).map(|m| (t, Stp::Up(m))),
            Out::Uni(_) => Some((t, Stp::Uni)),
            _ => None,
        })
        .collect()
}

/// Checks one execution. `tr_release` = arrival time of the macro key's release (None = held to the
/// end of the observation... we always release before settling), `t_other` = arrival time of another
/// key's press while the macro may be running.
#[allow(clippy::too_many_arguments)]
fn judge(exp: &[Stp], repeat: bool, c_rel: bool, c_press: bool, obs: &[(u64, Stp)], t_press: u64, t_release: u64, t_other: Option<u64>, held: &[String]) -> Option<(String, String)> {
    let steps: Vec<&Stp> = exp.iter().filter(|s| !matches!(s, Stp::Delay(_))).collect();
    let nsteps = steps.len();
    if held.iter().any(|k| MKEYS.contains(&k.as_str())) {
        return Some(("left-pressed".into(), format!("macro keys still held after settle: {held:?}")));
    }
    // cancel instant (earliest applicable)
    let mut cancel: Option<u64> = None;
    if c_rel {
        cancel = Some(t_release);
    }
    if c_press {
        if let Some(t) = t_other {
            // the trigger is enabled while the macro is in progress: a press arriving in the same
            // millisecond as the macro key's own press precedes the start of the macro
            if t > t_press {
                cancel = Some(cancel.map(|c| c.min(t)).unwrap_or(t));
            }
        }
    }
    // match obs against rounds of `steps`
    let mut i = 0usize; // index into obs
    let mut rounds = 0usize;
    let mut pressed: Vec<&'static str> = vec![];
    let mut last_stamp: Option<u64> = None;
    let mut round_starts: Vec<u64> = vec![];
    let mut round_ends: Vec<u64> = vec![];
    'outer: loop {
        let round_begin = i;
        for (si, st) in steps.iter().enumerate() {
            match obs.get(i) {
                Some((t, o)) if o == *st => {
                    if si == 0 {
                        round_starts.push(*t);
                    }
                    if let Some(ls) = last_stamp {
                        if *t <= ls {
                            let custom = matches!(o, Stp::Uni) || (i > 0 && matches!(obs[i - 1].1, Stp::Uni));
                            return Some((if custom { "custom-step-same-tick".into() } else { "same-tick".into() }, format!("two macro steps in the same millisecond at stamp {t}: {obs:?}")));
                        }
                    }
                    last_stamp = Some(*t);
                    match o {
                        Stp::Down(k) => pressed.push(k),
                        Stp::Up(k) => pressed.retain(|p| p != k),
                        _ => {}
                    }
                    i += 1;
                }
                _ => {
                    // the round stops here: what follows must be only releases of what is pressed
                    let rest = &obs[i..];
                    let mut p = pressed.clone();
                    for (_, o) in rest {
                        match o {
                            Stp::Up(k) if p.contains(k) => p.retain(|x| x != k),
                            _ => {
                                let custom_involved = matches!(st, Stp::Uni) || rest.iter().any(|(_, o)| matches!(o, Stp::Uni));
                                return Some((
                                    if custom_involved { "custom-step-order".into() } else { "wrong-step".into() },
                                    format!("macro output deviates from its list at event {i} (round {}): expected {:?}, observed tail {:?}; full {obs:?}", rounds + 1, st, rest),
                                ));
                            }
                        }
                    }
                    if !p.is_empty() {
                        return Some(("left-pressed".into(), format!("keys {p:?} pressed by the macro never released; {obs:?}")));
                    }
                    // a truncated round is legal only for cancel variants, and only with a cancel event
                    let truncated = !(i == round_begin && rounds > 0);
                    if truncated || rounds == 0 {
                        // effective cancel instant: the release (release-cancel variants) and/or another
                        // key's press — but a repeating macro is "in progress" only during a round, so a
                        // press that falls into the gap between two rounds does not count
                        let mut eff: Option<u64> = if c_rel { Some(t_release) } else { None };
                        if c_press {
                            if let Some(t) = t_other {
                                let in_gap = repeat && round_ends.iter().enumerate().any(|(k, e)| t >= *e && t <= round_starts.get(k + 1).copied().unwrap_or(u64::MAX) && round_starts.get(k + 1).is_some());
                                // For the repeat forms the documentation only says that the cancel variant applies to
                                // "the final repeat"; the trigger is armed once, for the duration of one round. A press
                                // after the first round is therefore a don't-care.
                                let after_first_round = repeat && round_ends.first().map(|e| t > *e).unwrap_or(false);
                                if t > t_press && !in_gap && !after_first_round {
                                    eff = Some(eff.map(|c| c.min(t)).unwrap_or(t));
                                }
                            }
                        }
                        match eff {
                            None => {
                                return Some(("incomplete-without-cancel".into(), format!("macro stopped after {} of {nsteps} steps of round {} without any cancelling event; {obs:?}", i - round_begin, rounds + 1)));
                            }
                            Some(tc) => {
                                if let Some((t_last_step, _)) = obs[..i].last() {
                                    if *t_last_step > tc + 2 && i > round_begin {
                                        // custom items trail the key steps by one tick each (known finding): when the
                                        // cancelling press lands among the trailing custom items of a round, the layout
                                        // has already finished that round and the press falls into its inter-round gap
                                        let last_key_step_before_tc = obs[..i].iter().filter(|(t, s)| !matches!(s, Stp::Uni) && *t <= tc).map(|(t, _)| *t).max();
                                        let trailing_custom = repeat && obs[..i].iter().any(|(t, s)| matches!(s, Stp::Uni) && *t + 3 >= tc && *t <= tc + 3) && last_key_step_before_tc.map(|t| obs[..i].iter().all(|(t2, s2)| !(*t2 > t && *t2 <= tc) || matches!(s2, Stp::Uni))).unwrap_or(false);
                                        let custom = matches!(obs[i - 1].1, Stp::Uni) || trailing_custom;
                                        return Some((if custom { "custom-step-after-cancel".into() } else { "ran-after-cancel".into() }, format!("macro step at stamp {t_last_step} after the cancelling event at {tc}; {obs:?}")));
                                    }
                                }
                            }
                        }
                    }
                    break 'outer;
                }
            }
        }
        rounds += 1;
        if let Some(ls) = last_stamp {
            round_ends.push(ls);
        }
        if !repeat {
            if i != obs.len() {
                return Some(("extra-output".into(), format!("output continues after the macro's list: {:?}; full {obs:?}", &obs[i..])));
            }
            break;
        }
        if i == obs.len() {
            break;
        }
    }
    if rounds == 0 && cancel.is_none() {
        return Some(("never-played".into(), format!("macro produced no complete round; {obs:?}")));
    }
    // delays
    {
        let mut oi = 0usize;
        let mut pending_delay = 0u64;
        let mut prev: Option<u64> = None;
        'd: for _round in 0..rounds.max(1) {
            for st in exp {
                match st {
                    Stp::Delay(n) => pending_delay += n,
                    _ => {
                        let Some((t, o)) = obs.get(oi) else { break 'd };
                        if o != st {
                            // past the played prefix of a cancelled run: these are the clean-up releases (matched
                            // above), to which the stated delays do not apply
                            break 'd;
                        }
                        if let Some(p) = prev {
                            if pending_delay > 0 && *t < p + pending_delay {
                                let custom = (oi > 0 && matches!(obs[oi - 1].1, Stp::Uni)) || matches!(obs[oi].1, Stp::Uni);
                                return Some((if custom { "custom-step-lag/delay".into() } else { "delay-too-short".into() }, format!("stated delay {pending_delay} but only {} ticks between steps at {p} and {t}; {obs:?}", t - p)));
                            }
                        }
                        prev = Some(*t);
                        pending_delay = 0;
                        oi += 1;
                    }
                }
            }
        }
    }
    // repeat: no new round after the key was released
    if repeat {
        let lead: u64 = exp.iter().take_while(|s| matches!(s, Stp::Delay(_))).map(|s| if let Stp::Delay(n) = s { *n } else { 0 }).sum();
        let trail: u64 = exp.iter().rev().take_while(|s| matches!(s, Stp::Delay(_))).map(|s| if let Stp::Delay(n) = s { *n } else { 0 }).sum();
        for (ri, rs) in round_starts.iter().enumerate() {
            // the decision to start another round is taken when the previous round completes; its
            // first visible step follows after the body's trailing + leading delays
            if ri >= 1 && *rs > t_release + 2 + lead + trail {
                let custom = exp.iter().any(|s| matches!(s, Stp::Uni));
                return Some((if custom { "custom-step-lag/round-after-release".into() } else { "round-after-release".into() }, format!("round {} started at stamp {rs} although the macro key was released at {t_release}; {obs:?}", ri + 1)));
            }
        }
    }
    // non-repeat, non-cancel... complete exactly once is enforced above
    None
}

fn run_body(body: &[usize], st: &mut Stats) {
    let mut exp = vec![];
    for i in body {
        expand_item(*i, &mut exp);
    }
    let dur: u64 = exp.iter().map(|s| if let Stp::Delay(n) = s { *n } else { 1 }).sum();
    let (a, b, c) = (kc("a"), kc("b"), kc("c"));
    for (vname, repeat, c_rel, c_press) in VARIANTS {
        let cfg = cfg_for(body, vname);
        if let Err(e) = Sim::new(&cfg) {
            st.configs_rejected += 1;
            st.outcome("rejected");
            if e.starts_with("PANIC") {
                st.violation(Violation { property: "C08".into(), signature: panic_signature(&e), what: e, detail: json!({"kind": "history", "cfg": cfg, "history": ""}) });
            }
            continue;
        }
        st.configs_accepted += 1;
        // histories: (release offset r, other-key press offset o)
        let mut hists: Vec<(Vec<Ev>, u64, u64, Option<u64>)> = vec![];
        let maxoff = dur + 3;
        for r in 0..=maxoff {
            // press a at t=1, release at 1+r
            let mut h = vec![Ev::T(1), Ev::P(a)];
            if r > 0 {
                h.push(Ev::T(r as u32));
            }
            h.push(Ev::R(a));
            hists.push((h, 1, 1 + r, None));
        }
        for (hold, other) in [(false, b), (true, b), (false, c), (true, c)] {
            for o in 0..=maxoff {
                // a pressed at 1 (tapped: released at 2; held: released at maxoff+6), b pressed at 1+o, released 2 later
                let rel = if hold { 1 + maxoff + 6 } else { 2 };
                let mut evs: Vec<(u64, Ev)> = vec![(1, Ev::P(a)), (rel, Ev::R(a)), (1 + o, Ev::P(other)), (3 + o, Ev::R(other))];
                evs.sort_by_key(|x| x.0);
                let mut h = vec![];
                let mut now = 0;
                for (t, e) in evs {
                    if t > now {
                        h.push(Ev::T((t - now) as u32));
                        now = t;
                    }
                    h.push(e);
                }
                hists.push((h, 1, rel, Some(1 + o)));
            }
        }
        for (h, tp, trl, to) in hists {
            let mut full = h.clone();
            full.push(Ev::T((2 * dur + 30) as u32));
            st.evaluations += 1;
            crate::par::announce(&cfg, &full);
            match crate::sim::run_fresh(&cfg, &full) {
                Err(m) => {
                    st.violation(mk_violation("C08", panic_signature(&m), m, "body", &cfg, &full, json!({})));
                    return;
                }
                Ok((s, tr)) => {
                    st.validated += 1;
                    st.transitions += full.len() as u64;
                    let obs = project(&s);
                    let held = crate::sim::os_down_set(&tr);
                    st.outcome(&format!("{}/events{}", if *repeat { "repeat" } else { "once" }, (obs.len() / 4).min(3)));
                    st.distinct_traces.insert(crate::sim::hash_str(&crate::sim::trace_to_string(&tr)));
                    if let Some((sig, what)) = judge(&exp, *repeat, *c_rel, *c_press, &obs, tp, trl, to, &held) {
                        st.violation(mk_violation(
                            "C08",
                            format!("{vname}::{sig}"),
                            format!("({vname} {}) [{}]: {what}", body.iter().map(|i| ITEMS[*i]).collect::<Vec<_>>().join(" "), crate::sim::hist_to_string(&full)),
                            "body",
                            &cfg,
                            &full,
                            json!({"body": body, "variant": vname, "t_press": tp, "t_release": trl, "t_other": to}),
                        ));
                    }
                }
            }
        }
    }
}

fn run_concurrent(st: &mut Stats) {
    let keys = ["a", "b", "c", "d", "e", "f"];
    let outs = ["x", "y", "z", "w", "v", "u"];
    let outn = ["X", "Y", "Z", "W", "V", "U"];
    let mut cfg = String::from("(defcfg)\n(defsrc a b c d e f)\n(deflayer base");
    for o in outs {
        cfg += &format!(" (macro {o} 3 S-{o} 3 {o})");
    }
    cfg += ")\n";
    for n in 1..=6usize {
        for gap in [1u32, 2, 5] {
            let mut h = vec![];
            for k in &keys[..n] {
                h.push(Ev::P(kc(k)));
                h.push(Ev::T(gap));
            }
            for k in &keys[..n] {
                h.push(Ev::R(kc(k)));
            }
            h.push(Ev::T(80));
            st.evaluations += 1;
            match crate::sim::run_fresh(&cfg, &h) {
                Err(m) => st.violation(mk_violation("C08", format!("concurrent::{}", panic_signature(&m)), m, "concurrent", &cfg, &h, json!({}))),
                Ok((_, tr)) => {
                    st.validated += 1;
                    let held = crate::sim::os_down_set(&tr);
                    if !held.is_empty() {
                        st.violation(mk_violation("C08", "concurrent::left-pressed".into(), format!("{n} macros started {gap} ticks apart: still held after settle {held:?}"), "concurrent", &cfg, &h, json!({})));
                        continue;
                    }
                    // per macro projection: X↓ X↑ LShift... the shift is shared; check each letter key: pattern ↓k ↑k ↓k ↑k ↓k ↑k or a prefix (evicted = cancelled)
                    for (mi, kn) in outn[..n].iter().enumerate() {
                        let evs: Vec<bool> = tr.iter().filter_map(|(_, o)| match o {
                            Out::Down(k) if k == kn => Some(true),
                            Out::Up(k) if k == kn => Some(false),
                            _ => None,
                        }).collect();
                        let alternating = evs.iter().enumerate().all(|(i, d)| *d == (i % 2 == 0)) && evs.len() % 2 == 0;
                        let complete = evs.len() == 6;
                        if !alternating || evs.len() > 6 {
                            st.violation(mk_violation("C08", "concurrent::garbled".into(), format!("{n} macros {gap} apart: macro {mi} key {kn} events {evs:?}"), "concurrent", &cfg, &h, json!({})));
                        } else if !complete && n <= 4 {
                            st.violation(mk_violation("C08", "concurrent::incomplete<=4".into(), format!("{n} (<= 4) macros {gap} apart: macro {mi} played only {} of 6 key events", evs.len()), "concurrent", &cfg, &h, json!({})));
                        }
                        st.outcome(if complete { "concurrent/complete" } else { "concurrent/cut" });
                    }
                }
            }
        }
    }
    st.sample(json!({"family": "concurrent macros", "n": "1..=6", "gaps": [1, 2, 5]}));
}

fn run_job(tier: Tier, idx: usize, st: &mut Stats) {
    match &jobs(tier)[idx] {
        Job::Concurrent => run_concurrent(st),
        Job::Body { body, .. } => {
            run_body(body, st);
            if idx % 67 == 0 {
                st.sample(json!({"body": body.iter().map(|i| ITEMS[*i]).collect::<Vec<_>>(), "variants": VARIANTS.len()}));
            }
        }
    }
}

fn replay(d: &serde_json::Value) -> Vec<Violation> {
    let mut st = Stats::default();
    if d.get("kind").and_then(|x| x.as_str()) == Some("concurrent") {
        run_concurrent(&mut st);
        return st.violations;
    }
    let Some(body) = d.get("extra").and_then(|e| e.get("body")).and_then(|b| b.as_array()) else { return vec![] };
    let body: Vec<usize> = body.iter().filter_map(|x| x.as_u64().map(|n| n as usize)).collect();
    run_body(&body, &mut st);
    st.violations
}
