//! C03 — configuration parsing is total: every text yields a config or a well-formed diagnostic.
//! (i) all single structure-aware mutations of every seed config found in the working tree,
//! (ii) all token strings up to length L over a 24-token alphabet (alone and inside a minimal config),
//! (iii) self-reference families (defvar / deftemplate / alias cycles, include loops),
//! (iv) every top-level form of every seed relocated into an included file, (v) byte-level variants
//! (BOM, CRLF, multi-byte comments, truncations, unterminated strings/comments).
use super::*;
use crate::par::{PropDef, Stats, Tier};
use miette::Diagnostic;
use rustc_hash::FxHashMap;
use serde_json::json;
use std::sync::OnceLock;

pub fn def() -> PropDef {
    PropDef {
        id: "C03",
        level: "exploration",
        n_jobs,
        job_level,
        run_job,
        replay,
        rule: "seeds = every cfg_samples/*.kbd, every ---- block of docs/config.adoc containing a (def...) form, every string literal containing (defsrc in parser/src/cfg/tests*.rs and src/tests/sim_tests/*.rs (read from /repo's working tree at run time). For every seed and every s-expression node: delete, duplicate, swap with next sibling, wrap in a list, unwrap a list, replace by each of {(), 0, 1, 65535, 65536, -1, $n, $undefined, @undefined, \"\", 🔣, _, an unterminated string, an unterminated block comment} (quick: seeds <= 6000 bytes get all mutations, larger seeds delete/()/$undefined only; thorough: everything). Token enumeration: ALL strings of <= L tokens over a 24-token alphabet, alone and spliced into a minimal valid config. Include relocation: every top-level form of every seed (<= 40 kB) moved into an included file with 3 header variants (none, multi-byte comment lines, BOM+CRLF). Byte-level variants of every seed: BOM, CRLF, BOM+CRLF, multi-byte comment lines, unterminated string / raw string / block comment, stray ')', NUL, tabs, truncation at every 1/16 (with and without BOM). Self-reference family: all defvar/defalias/deftemplate tables over <= 3 names with values drawn from the names (cycles: `$x`, `(concat $x z)`, `($x)`, and `(concat \"$\" x)` which only becomes a reference once evaluated), include of self / missing / mutual. Oracle: parser returns Ok or Err without panicking or dying; for Err every labelled span can be read from the named source (in bounds, on char boundaries) and the Debug rendering of the report returns. distinct = distinct (outcome class, first 60 chars of message) pairs; evaluations = parses.",
        assumptions: &[
            "texts further than one mutation from every seed and longer than L tokens are not covered",
            "non-termination is approximated by the worker deadline (a hanging parse is reported as machinery failure with the job index)",
        ],
        required_level,
        min_outcomes: 3,
    }
}

// ---------------------------------------------------------------------------------------------
// seeds

pub struct Seed {
    pub name: String,
    pub text: String,
}

fn extract_rust_literals(src: &str, out: &mut Vec<String>) {
    // raw strings r#"..."# / r"..." and ordinary "..." literals that contain "(defsrc"
    let b = src.as_bytes();
    let mut i = 0;
    while i < b.len() {
        if b[i] == b'r' && i + 1 < b.len() && (b[i + 1] == b'#' || b[i + 1] == b'"') {
            let mut j = i + 1;
            let mut hashes = 0;
            while j < b.len() && b[j] == b'#' {
                hashes += 1;
                j += 1;
            }
            if j < b.len() && b[j] == b'"' {
                let start = j + 1;
                let closer = format!("\"{}", "#".repeat(hashes));
                if let Some(k) = src[start..].find(&closer) {
                    let lit = &src[start..start + k];
                    if lit.contains("(defsrc") {
                        out.push(lit.to_string());
                    }
                    i = start + k + closer.len();
                    continue;
                }
            }
        }
        if b[i] == b'"' {
            let start = i + 1;
            let mut j = start;
            let mut s = String::new();
            let mut ok = false;
            while j < b.len() {
                if b[j] == b'\\' && j + 1 < b.len() {
                    match b[j + 1] {
                        b'n' => s.push('\n'),
                        b't' => s.push('\t'),
                        b'"' => s.push('"'),
                        b'\\' => s.push('\\'),
                        b'\n' => {
                            // line continuation: skip following whitespace
                            j += 2;
                            while j < b.len() && (b[j] == b' ' || b[j] == b'\t' || b[j] == b'\n') {
                                j += 1;
                            }
                            continue;
                        }
                        _ => {}
                    }
                    j += 2;
                    continue;
                }
                if b[j] == b'"' {
                    ok = true;
                    break;
                }
                let ch_len = utf8_len(b[j]);
                s.push_str(&src[j..(j + ch_len).min(src.len())]);
                j += ch_len;
            }
            if ok && s.contains("(defsrc") {
                out.push(s);
            }
            i = j + 1;
            continue;
        }
        // skip char literals like '"'
        if b[i] == b'\'' && i + 2 < b.len() && b[i + 2] == b'\'' {
            i += 3;
            continue;
        }
        i += 1;
    }
}

fn utf8_len(b: u8) -> usize {
    if b < 0x80 {
        1
    } else if b >> 5 == 0b110 {
        2
    } else if b >> 4 == 0b1110 {
        3
    } else if b >> 3 == 0b11110 {
        4
    } else {
        1
    }
}

pub fn sample_files() -> FxHashMap<String, String> {
    let mut m = FxHashMap::default();
    if let Ok(rd) = std::fs::read_dir("/repo/cfg_samples") {
        for e in rd.flatten() {
            if let Ok(t) = std::fs::read_to_string(e.path()) {
                m.insert(e.file_name().to_string_lossy().to_string(), t);
            }
        }
    }
    m
}

pub fn seeds() -> &'static Vec<Seed> {
    static S: OnceLock<Vec<Seed>> = OnceLock::new();
    S.get_or_init(|| {
        let mut v: Vec<Seed> = vec![];
        let mut names: Vec<_> = std::fs::read_dir("/repo/cfg_samples").map(|rd| rd.flatten().map(|e| e.path()).collect()).unwrap_or_default();
        names.sort();
        for p in names {
            if p.extension().map(|e| e == "kbd").unwrap_or(false) {
                if let Ok(t) = std::fs::read_to_string(&p) {
                    v.push(Seed { name: format!("cfg_samples/{}", p.file_name().unwrap().to_string_lossy()), text: t });
                }
            }
        }
        if let Ok(doc) = std::fs::read_to_string("/repo/docs/config.adoc") {
            let mut inb = false;
            let mut cur = String::new();
            let mut n = 0;
            for line in doc.lines() {
                if line.trim() == "----" {
                    if inb {
                        if cur.contains("(def") {
                            v.push(Seed { name: format!("config.adoc#{}", n), text: std::mem::take(&mut cur) });
                            n += 1;
                        }
                        cur.clear();
                    }
                    inb = !inb;
                    continue;
                }
                if inb {
                    cur.push_str(line);
                    cur.push('\n');
                }
            }
        }
        let mut test_files: Vec<std::path::PathBuf> = vec![];
        for d in ["/repo/parser/src/cfg", "/repo/parser/src/cfg/tests", "/repo/src/tests", "/repo/src/tests/sim_tests"] {
            if let Ok(rd) = std::fs::read_dir(d) {
                for e in rd.flatten() {
                    let p = e.path();
                    let n = p.file_name().unwrap().to_string_lossy().to_string();
                    if p.extension().map(|e| e == "rs").unwrap_or(false) && (d.contains("tests") || n.starts_with("tests")) {
                        test_files.push(p);
                    }
                }
            }
        }
        test_files.sort();
        for p in test_files {
            if let Ok(src) = std::fs::read_to_string(&p) {
                let mut lits = vec![];
                extract_rust_literals(&src, &mut lits);
                for (i, l) in lits.into_iter().enumerate() {
                    v.push(Seed { name: format!("{}#{}", p.strip_prefix("/repo").unwrap_or(&p).display(), i), text: l });
                }
            }
        }
        // dedup by text
        let mut seen = std::collections::HashSet::new();
        v.retain(|s| seen.insert(s.text.clone()));
        v
    })
}

// ---------------------------------------------------------------------------------------------
// s-expression nodes (own lexer: spans only)

#[derive(Clone, Debug)]
pub struct Node {
    pub start: usize,
    pub end: usize,
    pub is_list: bool,
    pub parent: Option<usize>,
}

pub fn lex_nodes(t: &str) -> Vec<Node> {
    let b = t.as_bytes();
    let mut nodes: Vec<Node> = vec![];
    let mut stack: Vec<usize> = vec![];
    let mut i = 0;
    while i < b.len() {
        let c = b[i];
        if c == b';' && i + 1 < b.len() && b[i + 1] == b';' {
            while i < b.len() && b[i] != b'\n' {
                i += 1;
            }
            continue;
        }
        if c == b'#' && i + 1 < b.len() && b[i + 1] == b'|' {
            match t[i + 2..].find("|#") {
                Some(k) => i = i + 2 + k + 2,
                None => i = b.len(),
            }
            continue;
        }
        if c == b'(' {
            nodes.push(Node { start: i, end: i + 1, is_list: true, parent: stack.last().copied() });
            stack.push(nodes.len() - 1);
            i += 1;
            continue;
        }
        if c == b')' {
            if let Some(n) = stack.pop() {
                nodes[n].end = i + 1;
            }
            i += 1;
            continue;
        }
        if c.is_ascii_whitespace() {
            i += 1;
            continue;
        }
        let start = i;
        if c == b'"' {
            i += 1;
            while i < b.len() && b[i] != b'"' && b[i] != b'\n' {
                i += 1;
            }
            i = (i + 1).min(b.len());
        } else if c == b'r' && t[i..].starts_with("r#\"") {
            match t[i + 3..].find("\"#") {
                Some(k) => i = i + 3 + k + 2,
                None => i = b.len(),
            }
        } else {
            while i < b.len() && !b[i].is_ascii_whitespace() && b[i] != b'(' && b[i] != b')' && b[i] != b'"' {
                i += 1;
            }
        }
        nodes.push(Node { start, end: i, is_list: false, parent: stack.last().copied() });
    }
    // unterminated lists end at EOF
    for n in stack {
        nodes[n].end = b.len();
    }
    nodes
}

const REPLACEMENTS: &[&str] = &["()", "0", "1", "65535", "65536", "-1", "$n", "$undefined", "@undefined", "\"\"", "🔣", "_", "\"unterminated", "#| unterminated", "(a", ")"];
const REPLACEMENTS_LIGHT: &[&str] = &["()", "$undefined"];

/// All single mutations at node `ni`.
pub fn mutations(t: &str, nodes: &[Node], ni: usize, light: bool) -> Vec<(String, String)> {
    let n = &nodes[ni];
    let mut out = vec![];
    let (a, b) = (n.start, n.end);
    let me = &t[a..b];
    out.push(("delete".to_string(), format!("{}{}", &t[..a], &t[b..])));
    for r in if light { REPLACEMENTS_LIGHT } else { REPLACEMENTS } {
        if *r != me {
            out.push((format!("replace:{r}"), format!("{}{}{}", &t[..a], r, &t[b..])));
        }
    }
    if light {
        return out;
    }
    out.push(("duplicate".to_string(), format!("{}{} {}{}", &t[..a], me, me, &t[b..])));
    out.push(("wrap".to_string(), format!("{}({}){}", &t[..a], me, &t[b..])));
    if n.is_list && b - a >= 2 && t.as_bytes()[b - 1] == b')' {
        out.push(("unwrap".to_string(), format!("{}{}{}", &t[..a], &t[a + 1..b - 1], &t[b..])));
    }
    // swap with next sibling
    if let Some(next) = nodes.iter().enumerate().skip(ni + 1).find(|(_, m)| m.parent == n.parent && m.start >= b) {
        let m = next.1;
        out.push(("swap".to_string(), format!("{}{}{}{}{}", &t[..a], &t[m.start..m.end], &t[b..m.start], me, &t[m.end..])));
    }
    out
}

// ---------------------------------------------------------------------------------------------
// the oracle

/// Returns (outcome class, Option<(signature, what)>).
pub fn parse_and_check(text: &str, files: &FxHashMap<String, String>) -> (String, Option<(String, String)>) {
    let files = files.clone();
    let r = crate::sim::guarded(|| kanata_parser::cfg::new_from_str(text, files));
    match r {
        Err(p) => ("panic".into(), Some((panic_signature(&p), format!("parser panicked: {p}")))),
        Ok(Ok(_)) => ("ok".into(), None),
        Ok(Err(report)) => {
            // spans must be readable from the named source
            let chk = crate::sim::guarded(|| -> Result<String, String> {
                if let (Some(labels), Some(src)) = (report.labels(), report.source_code()) {
                    for l in labels {
                        if let Err(e) = src.read_span(l.inner(), 0, 0) {
                            return Err(format!("label span (offset {}, len {}) is not readable from its source: {e:?}", l.offset(), l.len()));
                        }
                    }
                }
                let rendered = format!("{:?}", report);
                if rendered.is_empty() {
                    return Err("empty rendering".into());
                }
                Ok(rendered)
            });
            match chk {
                Err(p) => ("render-panic".into(), Some((format!("render-{}", panic_signature(&p)), format!("rendering the diagnostic panicked: {p}")))),
                Ok(Err(e)) => ("bad-span".into(), Some(("bad-span".into(), e))),
                Ok(Ok(rendered)) => {
                    let msg: String = rendered.lines().find(|l| l.contains("help:")).unwrap_or("").chars().take(60).collect();
                    (format!("err:{}", msg.trim()), None)
                }
            }
        }
    }
}

// ---------------------------------------------------------------------------------------------
// jobs

const TOKENS: &[&str] = &[
    "(", ")", "defsrc", "deflayer", "defalias", "defcfg", "defvar", "deftemplate", "template-expand", "include", "defchordsv2", "defseq", "a", "$a", "@a", "\"", "r#\"", "#|",
    ";;", "\n", "tap-hold", "macro", "1", "ü",
];

#[derive(Clone)]
enum Job {
    Mutate { seed: usize, from: usize, to: usize, light: bool },
    Tokens { first: Vec<usize>, len: usize, wrapped: bool },
    SelfRef,
    /// every top-level form of the seed moved, one at a time, into an included file
    Relocate { seed: usize },
    /// whole-text byte-level variants of the seed (BOM, CRLF, multi-byte comment lines, truncations)
    Bytes { seed: usize },
}

const CHUNK: usize = 40;

fn jobs(tier: Tier) -> &'static Vec<(u32, Job)> {
    static Q: OnceLock<Vec<(u32, Job)>> = OnceLock::new();
    static T: OnceLock<Vec<(u32, Job)>> = OnceLock::new();
    let cell = match tier {
        Tier::Quick => &Q,
        Tier::Thorough => &T,
    };
    cell.get_or_init(|| {
        let mut v = vec![];
        v.push((0, Job::SelfRef));
        let big = 6000;
        for (si, s) in seeds().iter().enumerate() {
            if s.text.len() <= 40000 {
                v.push((0, Job::Relocate { seed: si }));
            }
            v.push((0, Job::Bytes { seed: si }));
            let n = lex_nodes(&s.text).len();
            let light = s.text.len() > big && tier == Tier::Quick && s.text.len() > 40000;
            let mut from = 0;
            while from < n {
                let to = (from + CHUNK).min(n);
                match tier {
                    Tier::Quick => v.push((0, Job::Mutate { seed: si, from, to, light })),
                    Tier::Thorough => {
                        v.push((0, Job::Mutate { seed: si, from, to, light }));
                    }
                }
                from = to;
            }
        }
        let l_required = match tier {
            Tier::Quick => 5,
            Tier::Thorough => 5,
        };
        for len in 1..=l_required {
            for wrapped in [false, true] {
                if len <= 2 {
                    v.push((0, Job::Tokens { first: vec![], len, wrapped }));
                } else if len >= 5 {
                    for a in 0..TOKENS.len() {
                        for b in 0..TOKENS.len() {
                            for c in 0..TOKENS.len() {
                                v.push((0, Job::Tokens { first: vec![a, b, c], len, wrapped }));
                            }
                        }
                    }
                } else {
                    for a in 0..TOKENS.len() {
                        for b in 0..TOKENS.len() {
                            v.push((0, Job::Tokens { first: vec![a, b], len, wrapped }));
                        }
                    }
                }
            }
        }
        if tier == Tier::Thorough {
            // level 1: the big seeds with the full mutation set; level 2: tokens L+1
            for (si, s) in seeds().iter().enumerate() {
                if s.text.len() > big {
                    let n = lex_nodes(&s.text).len();
                    let mut from = 0;
                    while from < n {
                        let to = (from + CHUNK).min(n);
                        v.push((1, Job::Mutate { seed: si, from, to, light: false }));
                        from = to;
                    }
                }
            }
            for wrapped in [false, true] {
                for a in 0..TOKENS.len() {
                    for b in 0..TOKENS.len() {
                        v.push((2, Job::Tokens { first: vec![a, b], len: 6, wrapped }));
                    }
                }
            }
        }
        v.sort_by_key(|(l, _)| *l);
        v
    })
}

fn n_jobs(t: Tier) -> usize {
    jobs(t).len()
}
fn job_level(t: Tier, i: usize) -> u32 {
    jobs(t)[i].0
}
fn required_level(_t: Tier) -> u32 {
    0
}

fn record(st: &mut Stats, text: &str, files: &FxHashMap<String, String>, origin: &str) {
    crate::par::announce_value(&json!({"cfg": text, "origin": origin, "history": ""}));
    st.evaluations += 1;
    let (cls, viol) = parse_and_check(text, files);
    if cls == "ok" {
        st.configs_accepted += 1;
    } else {
        st.configs_rejected += 1;
    }
    st.distinct_traces.insert(crate::sim::hash_str(&cls));
    let c = if let Some(r) = cls.strip_prefix("err:") { format!("err:{}", r.chars().take(24).collect::<String>()) } else { cls.clone() };
    if st.outcomes.len() < 400 || st.outcomes.contains_key(&c) {
        st.outcome(&c);
    } else {
        st.outcome("err:(other)");
    }
    if let Some((sig, what)) = viol {
        st.violation(Violation {
            property: "C03".into(),
            signature: sig,
            what: format!("{what} [{origin}]"),
            detail: json!({"kind": "parse", "cfg": text, "files": files.iter().filter(|(k, _)| text.contains(k.as_str())).map(|(k, v)| (k.clone(), json!(v))).collect::<serde_json::Map<_, _>>(), "origin": origin}),
        });
    }
}

fn selfref_texts() -> Vec<(String, FxHashMap<String, String>)> {
    let mut out = vec![];
    let names = ["a", "b", "c"];
    let base = "(defsrc a)\n";
    let empty = FxHashMap::default();
    // defvar tables: each of <= 3 names bound to a value drawn from {$a,$b,$c,(concat $x),($x)}
    let vals = |n: usize| -> Vec<String> {
        let mut v = vec![];
        for x in &names[..n] {
            v.push(format!("${x}"));
            v.push(format!("(concat ${x} z)"));
            v.push(format!("(${x})"));
            // a reference that only comes into being when the concat is evaluated
            v.push(format!("(concat \"$\" {x})"));
        }
        v.push("x".into());
        v
    };
    for n in 1..=3usize {
        let vs = vals(n);
        let mut idx = vec![0usize; n];
        loop {
            let mut defs = String::new();
            for (i, nm) in names[..n].iter().enumerate() {
                defs += &format!(" {} {}", nm, vs[idx[i]]);
            }
            for usesite in ["(deflayer l $a)", "(deflayer $a a)", "(deflayer l (tap-hold $a $a $a $a))", "(deflayer l (macro $a))", "(defalias x $a)(deflayer l @x)", "(deflayer l a)(defcfg $a $a)"] {
                out.push((format!("(defvar{defs})\n{base}{usesite}\n"), empty.clone()));
                out.push((format!("{base}(defvar{defs})\n{usesite}\n"), empty.clone()));
            }
            let mut k = 0;
            while k < n {
                idx[k] += 1;
                if idx[k] < vs.len() {
                    break;
                }
                idx[k] = 0;
                k += 1;
            }
            if k == n {
                break;
            }
        }
    }
    // alias cycles
    for defs in ["a @a", "a @b b @a", "a (multi @a)", "a (tap-hold 1 1 @b @b) b @a", "a @a a @a", "a b b @a c @b"] {
        out.push((format!("{base}(defalias {defs})\n(deflayer l @a)\n"), empty.clone()));
        out.push((format!("{base}(deflayer l @a)\n(defalias {defs})\n"), empty.clone()));
    }
    // template cycles
    for t in [
        "(deftemplate t () (template-expand t))(template-expand t)",
        "(deftemplate t (x) (t! t $x))(t! t a)",
        "(deftemplate t () (template-expand u))(deftemplate u () (template-expand t))(template-expand t)",
        "(deftemplate t (x) $x $x)(deflayer l (t! t (t! t a)))",
        "(deftemplate t (x) (if-equal $x $x (t! t $x)))(t! t a)",
        "(deftemplate t (x y) (if-in-list $x ($y) a))(deflayer l (t! t a (t! t a b)))",
        "(deftemplate t () (deftemplate u () a))(t! t)",
        "(deftemplate t ($x) a)(t! t)",
        "(t! undefined)",
        "(deftemplate)(deftemplate t)(deftemplate t ())(template-expand)",
    ] {
        out.push((format!("{base}{t}\n(deflayer l a)\n"), empty.clone()));
        out.push((format!("{t}\n{base}(deflayer l a)\n"), empty.clone()));
    }
    // includes: self, missing, mutual, include producing a cycle, non-string
    let mut f = FxHashMap::default();
    f.insert("self.kbd".to_string(), "(include self.kbd)".to_string());
    f.insert("a.kbd".to_string(), "(include b.kbd)".to_string());
    f.insert("b.kbd".to_string(), "(include a.kbd)".to_string());
    f.insert("ok.kbd".to_string(), "(defalias q x)".to_string());
    f.insert("bad.kbd".to_string(), "(defalias q".to_string());
    f.insert("bad2.kbd".to_string(), "(defalias () a)".to_string());
    f.insert("empty.kbd".to_string(), "".to_string());
    f.insert("uni.kbd".to_string(), "(defalias ü 🔣)\"".to_string());
    for inc in ["self.kbd", "a.kbd", "missing.kbd", "ok.kbd", "bad.kbd", "bad2.kbd", "empty.kbd", "uni.kbd", "()", "\"\"", "(ok.kbd)", "ok.kbd ok.kbd"] {
        out.push((format!("(include {inc})\n{base}(deflayer l a)\n"), f.clone()));
        out.push((format!("{base}(deflayer l a)\n(include {inc})"), f.clone()));
        out.push((format!("{base}(deflayer l a)\n(defchordsv2 (include {inc}) () 100 all-released ())"), f.clone()));
        out.push((format!("(defcfg concurrent-tap-hold yes)\n{base}(deflayer l a)\n(defchordsv2 (include {inc}))"), f.clone()));
    }
    // deflocalkeys boundary codes
    for code in ["0", "1", "766", "767", "768", "65535", "65536", "-1", "a"] {
        for plat in ["deflocalkeys-linux", "deflocalkeys-win", "deflocalkeys-wintercept", "deflocalkeys-winiov2", "deflocalkeys-macos"] {
            out.push((format!("({plat} foo {code})\n(defsrc foo)\n(deflayer l foo)\n"), empty.clone()));
        }
    }
    out
}

fn run_job(tier: Tier, idx: usize, st: &mut Stats) {
    let (_, j) = &jobs(tier)[idx];
    match j {
        Job::SelfRef => {
            let ts = selfref_texts();
            for (t, f) in &ts {
                record(st, t, f, "selfref");
            }
            st.sample(json!({"family": "selfref", "texts": ts.len(), "example": ts[0].0}));
        }
        Job::Mutate { seed, from, to, light } => {
            let s = &seeds()[*seed];
            let files = sample_files();
            let nodes = lex_nodes(&s.text);
            if *from == 0 {
                record(st, &s.text, &files, &format!("{} unmutated", s.name));
            }
            let mut n = 0;
            for ni in *from..*to {
                for (op, text) in mutations(&s.text, &nodes, ni, *light) {
                    record(st, &text, &files, &format!("{} node {} {}", s.name, ni, op));
                    n += 1;
                }
            }
            if idx % 97 == 0 {
                st.sample(json!({"seed": s.name, "nodes": format!("{}..{}", from, to), "mutants": n, "light": light}));
            }
        }
        Job::Relocate { seed } => {
            let s = &seeds()[*seed];
            let nodes = lex_nodes(&s.text);
            let mut n = 0;
            for (ni, node) in nodes.iter().enumerate() {
                if node.parent.is_some() {
                    continue;
                }
                let form = &s.text[node.start..node.end];
                for (hi, header) in ["", ";; en-tête – résumé 🔣\n;; second line\n", "\u{feff};; bom\r\n"].iter().enumerate() {
                    let mut files = sample_files();
                    files.insert("moved.kbd".to_string(), format!("{header}{form}\n"));
                    let text = format!("{}(include moved.kbd){}", &s.text[..node.start], &s.text[node.end..]);
                    record(st, &text, &files, &format!("{} top-level node {} moved to an included file (header {})", s.name, ni, hi));
                    n += 1;
                }
            }
            if idx % 53 == 0 {
                st.sample(json!({"seed": s.name, "family": "relocate-into-include", "variants": n}));
            }
        }
        Job::Bytes { seed } => {
            let s = &seeds()[*seed];
            let files = sample_files();
            let t = &s.text;
            let crlf = t.replace("\r\n", "\n").replace('\n', "\r\n");
            let mut variants: Vec<(String, String)> = vec![
                ("bom".into(), format!("\u{feff}{t}")),
                ("crlf".into(), crlf.clone()),
                ("bom+crlf".into(), format!("\u{feff}{crlf}")),
                ("bom+multibyte-comment".into(), format!("\u{feff};; touché é 🔣\r\n{crlf}")),
                ("multibyte-comment".into(), format!(";; touché é 🔣\n{t}")),
                ("block-comment-multibyte".into(), format!("#| é🔣 |#{t}")),
                ("double-bom".into(), format!("\u{feff}\u{feff}{t}")),
                ("unterminated-string".into(), format!("{t}\n\"é")),
                ("unterminated-block-comment".into(), format!("{t}\n#| é")),
                ("unterminated-raw-string".into(), format!("{t}\nr#\"é")),
                ("stray-close".into(), format!("{t})")),
                ("nul-byte".into(), format!("{t}\u{0}")),
                ("tabs".into(), t.replace(' ', "\t")),
            ];
            // truncations at every 1/16 of the text, snapped to char boundaries
            for k in 1..16 {
                let mut cut = t.len() * k / 16;
                while cut > 0 && !t.is_char_boundary(cut) {
                    cut -= 1;
                }
                variants.push((format!("truncate-{k}/16"), t[..cut].to_string()));
                variants.push((format!("bom+truncate-{k}/16"), format!("\u{feff}{}", &t[..cut])));
            }
            for (name, text) in &variants {
                record(st, text, &files, &format!("{} byte-level variant {}", s.name, name));
            }
            if idx % 59 == 0 {
                st.sample(json!({"seed": s.name, "family": "byte-level variants", "variants": variants.len()}));
            }
        }
        Job::Tokens { first, len, wrapped } => {
            let files = FxHashMap::default();
            let rest = len - first.len();
            let mut idxs = vec![0usize; rest];
            let mut n = 0u64;
            loop {
                let mut s = String::new();
                for t in first.iter().chain(idxs.iter()) {
                    s.push_str(TOKENS[*t]);
                    s.push(' ');
                }
                let text = if *wrapped { format!("(defsrc a)\n(deflayer l a)\n{s}") } else { s };
                record(st, &text, &files, "tokens");
                n += 1;
                let mut k = 0;
                while k < rest {
                    idxs[k] += 1;
                    if idxs[k] < TOKENS.len() {
                        break;
                    }
                    idxs[k] = 0;
                    k += 1;
                }
                if k == rest {
                    break;
                }
            }
            if idx % 293 == 0 {
                st.sample(json!({"family": "tokens", "len": len, "wrapped": wrapped, "texts": n}));
            }
        }
    }
}

fn replay(d: &serde_json::Value) -> Vec<Violation> {
    let text = d.get("cfg").or_else(|| d.get("text")).and_then(|x| x.as_str()).unwrap_or("");
    let mut files = FxHashMap::default();
    if let Some(o) = d.get("files").and_then(|x| x.as_object()) {
        for (k, v) in o {
            files.insert(k.clone(), v.as_str().unwrap_or("").to_string());
        }
    }
    if files.is_empty() {
        files = sample_files();
    }
    let (_, viol) = parse_and_check(text, &files);
    viol.into_iter()
        .map(|(sig, what)| Violation { property: "C03".into(), signature: sig, what, detail: d.clone() })
        .collect()
}
