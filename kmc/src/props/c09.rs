//! C09 — input chords (v1 defchords / v2 defchordsv2) fire for exactly the pressed key set, in any order.
use super::*;
use crate::explore::*;
use crate::par::{PropDef, Stats, Tier};
use crate::sim::{kc, Ev, Out, Sim};
use serde_json::json;
use std::sync::OnceLock;

pub fn def() -> PropDef {
    PropDef {
        id: "C09",
        level: "model_checking",
        n_jobs,
        job_level,
        run_job,
        replay,
        rule: "chord tables: ALL sets of 1-3 chords over the participant subsets {ab, ac, bc, abc} (thorough: also 4 participants) as defchordsv2 (x release rule {first-release, all-released} x {enabled, all disabled on the held layer, each single chord disabled on the held layer while the others stay enabled}) and as a v1 defchords group (with all singletons defined); every chord has its own output key. Structured histories per table: for EVERY non-empty subset S of the participants (alone, and with a non-chord key z inserted at every position): EVERY permutation of presses, EVERY gap vector from {0,1,T-1,T,T+1} (quick: {0,1,T+1} when the non-chord key is part of the history), then EVERY release permutation (1 tick apart; for the all-0 and all-1 press-gap vectors (foreign key absent or pressed last) also 45 ticks apart, which shows which key each output is bound to), then settle. Quick adds five v1 tables over four participants (decomposition shapes; press gaps {0,1}, no foreign key). Generic histories: ALL physically consistent histories of D steps over press/release of a,b,c,z + tick 1 + tick T+1. Oracle ChordSpec: (exact) if S is a defined chord and all of S is pressed within the timeout (boundary T: either), exactly that chord's action is output once and no participant's own action; (none) if S contains no defined chord as a subset, every key's own action is output once, in press order; (always) accounting: the participants of the chords that fired plus the keys whose own action was output are exactly the keys pressed, each once (nothing swallowed, nothing doubled; presses that complete again a chord that is still held — staggered release and re-press of its participants — count as accounted for by it), own actions of non-chord keys keep their order; with the chords disabled on the active layer no chord fires; the chord action goes up no later than T+8+2*(number of events) ticks (processing latency of queued releases) after the last participant's release, for all-released — and for a v1 chord with a single-key action that fired for exactly the pressed set (documented v1 release behaviour) — not before it, for first-release within T+8 ticks of the first release; nothing is held after settle; a key whose own action was output (alone or as a decomposed part) goes up no later than the latency bound after THAT key's release.",
        assumptions: &["v1 release timing beyond 'not later than all participants released' is documented as inconsistent and not checked", "chords-v2-min-idle (5 ticks after a non-chord activation) makes chord firing optional within that window in generic histories; accounting still holds"],
        required_level,
        min_outcomes: 3,
    }
}

const PART: [&str; 4] = ["a", "b", "c", "d"];
const PARTN: [&str; 4] = ["A", "B", "C", "D"];
const CHORD_OUT: [&str; 8] = ["x", "y", "w", "v", "u", "q", "r", "s"];
const CHORD_OUTN: [&str; 8] = ["X", "Y", "W", "V", "U", "Q", "R", "S"];
const T: u32 = 6;

#[derive(Clone, Debug)]
struct Table {
    v2: bool,
    nparts: usize,
    chords: Vec<u8>, // bitmasks over participants
    first_release: bool,
    /// bit i set = chord i is disabled on layer nav (and the histories run with nav held)
    disabled: u8,
    /// light structured family: press gaps {0,1} only and no foreign key (used for the 4-participant tables of the quick tier)
    light: u8, // 0 = full; 1 = press gaps {0,1}, no foreign key; 2 = all press gaps, no foreign key
}

impl Table {
    fn tag(&self) -> String {
        format!(
            "{}/{}/{}{}",
            if self.v2 { "v2" } else { "v1" },
            self.chords.iter().map(|m| (0..4).filter(|b| m & (1 << b) != 0).map(|b| PART[b]).collect::<String>()).collect::<Vec<_>>().join("+"),
            if self.first_release { "first" } else { "all" },
            if self.disabled != 0 { format!("/disabled{:b}", self.disabled) } else { String::new() }
        )
    }
    fn cfg(&self) -> String {
        let parts = &PART[..self.nparts];
        let mut s = String::new();
        if self.v2 {
            s += "(defcfg concurrent-tap-hold yes)\n";
            s += &format!("(defsrc {} z n)\n", parts.join(" "));
            s += &format!("(deflayer base {} z (layer-while-held nav))\n", parts.join(" "));
            s += &format!("(deflayer nav {} z _)\n", parts.join(" "));
            s += "(defchordsv2";
            for (i, m) in self.chords.iter().enumerate() {
                let keys: Vec<&str> = (0..4).filter(|b| m & (1 << b) != 0).map(|b| PART[b]).collect();
                s += &format!("\n  ({}) {} {} {} ({})", keys.join(" "), CHORD_OUT[i], T, if self.first_release { "first-release" } else { "all-released" }, if self.disabled & (1 << i) != 0 { "nav" } else { "" });
            }
            s += ")\n";
        } else {
            s += "(defcfg)\n";
            s += &format!("(defsrc {} z n)\n", parts.join(" "));
            s += &format!("(deflayer base {} z XX)\n", parts.iter().map(|p| format!("(chord g k{p})")).collect::<Vec<_>>().join(" "));
            s += &format!("(defchords g {T}");
            for p in parts {
                s += &format!("\n  (k{p}) {p}");
            }
            for (i, m) in self.chords.iter().enumerate() {
                let keys: Vec<String> = (0..4).filter(|b| m & (1 << b) != 0).map(|b| format!("k{}", PART[b])).collect();
                s += &format!("\n  ({}) {}", keys.join(" "), CHORD_OUT[i]);
            }
            s += ")\n";
        }
        s
    }
}

fn tables(tier: Tier) -> Vec<Table> {
    let mut v = vec![];
    let nparts_list: &[usize] = if tier == Tier::Thorough { &[3, 4] } else { &[3] };
    for &np in nparts_list {
        let subsets: Vec<u8> = (1u8..(1 << np)).filter(|m| m.count_ones() >= 2).collect();
        let mut chordsets: Vec<Vec<u8>> = vec![];
        for i in 0..subsets.len() {
            chordsets.push(vec![subsets[i]]);
            for j in i + 1..subsets.len() {
                chordsets.push(vec![subsets[i], subsets[j]]);
                for k in j + 1..subsets.len() {
                    if np == 3 || (subsets[i] | subsets[j] | subsets[k]).count_ones() as usize == np {
                        chordsets.push(vec![subsets[i], subsets[j], subsets[k]]);
                    }
                }
            }
        }
        if np == 4 {
            // keep the 4-participant universe tractable: tables that involve key d
            chordsets.retain(|c| c.iter().any(|m| m & 8 != 0));
            chordsets.truncate(60);
        }
        let light: u8 = if np == 4 { 2 } else { 0 };
        for cs in chordsets {
            for first_release in [false, true] {
                v.push(Table { v2: true, nparts: np, chords: cs.clone(), first_release, disabled: 0, light });
            }
            // all chords disabled on the held layer; each single chord disabled while the others stay enabled
            v.push(Table { v2: true, nparts: np, chords: cs.clone(), first_release: false, disabled: (1u8 << cs.len()) - 1, light });
            if cs.len() >= 2 {
                for i in 0..cs.len() {
                    v.push(Table { v2: true, nparts: np, chords: cs.clone(), first_release: false, disabled: 1 << i, light });
                }
            }
            v.push(Table { v2: false, nparts: np, chords: cs.clone(), first_release: false, disabled: 0, light });
        }
    }
    if tier == Tier::Quick {
        // v1 decomposition shapes that need four participants (a pressed set that is undefined but
        // contained in a larger chord stays pending and is decomposed into several parts)
        for cs in [vec![0b0011u8, 0b1111], vec![0b1111], vec![0b0011, 0b1100, 0b1111], vec![0b0111, 0b1111], vec![0b0110, 0b1111]] {
            v.push(Table { v2: false, nparts: 4, chords: cs, first_release: false, disabled: 0, light: 1 });
        }
    }
    v
}

struct Job {
    table: Table,
    generic_depth: Option<usize>,
    level: u32,
}

fn jobs(tier: Tier) -> &'static Vec<Job> {
    static Q: OnceLock<Vec<Job>> = OnceLock::new();
    static TH: OnceLock<Vec<Job>> = OnceLock::new();
    let cell = match tier {
        Tier::Quick => &Q,
        Tier::Thorough => &TH,
    };
    cell.get_or_init(|| {
        // the generic jobs are the expensive ones: listed first so that the round-robin sharding
        // spreads them evenly over the workers
        let mut v = vec![];
        for t in tables(tier) {
            if t.nparts == 3 && t.disabled == 0 && !(t.v2 && t.first_release && tier == Tier::Quick) {
                // quick: depth 5 for tables of one or two chords, depth 4 for three-chord tables
                v.push(Job { table: t.clone(), generic_depth: Some(if tier == Tier::Quick { if t.chords.len() >= 3 { 4 } else { 5 } } else { 6 }), level: 0 });
            }
        }
        for t in tables(tier) {
            v.push(Job { table: t.clone(), generic_depth: None, level: 0 });
        }
        v
    })
}

fn n_jobs(t: Tier) -> usize {
    jobs(t).len()
}
fn job_level(t: Tier, i: usize) -> u32 {
    jobs(t)[i].level
}
fn required_level(_t: Tier) -> u32 {
    0
}

fn perms(n: usize) -> Vec<Vec<usize>> {
    fn rec(cur: &mut Vec<usize>, n: usize, out: &mut Vec<Vec<usize>>) {
        if cur.len() == n {
            out.push(cur.clone());
            return;
        }
        for i in 0..n {
            if !cur.contains(&i) {
                cur.push(i);
                rec(cur, n, out);
                cur.pop();
            }
        }
    }
    let mut out = vec![];
    rec(&mut vec![], n, &mut out);
    out
}

struct Obs {
    fired: Vec<(usize, u64, Option<u64>)>, // chord index, down stamp, up stamp
    singles: Vec<(usize, u64, Option<u64>)>, // key index (0..3 participants, 9 = z), down stamp, up stamp
    held: Vec<String>,
    tstr: String,
}

fn observe(s: &Sim, nchords: usize) -> Obs {
    let tr = s.trace();
    let mut fired: Vec<(usize, u64, Option<u64>)> = vec![];
    let mut singles = vec![];
    for (t, o) in &tr {
        match o {
            Out::Down(k) => {
                if let Some(ci) = CHORD_OUTN[..nchords].iter().position(|c| c == k) {
                    fired.push((ci, *t, None));
                } else if let Some(pi) = PARTN.iter().position(|p| p == k) {
                    singles.push((pi, *t, None));
                } else if k == "Z" {
                    singles.push((9, *t, None));
                }
            }
            Out::Up(k) => {
                if let Some(ci) = CHORD_OUTN[..nchords].iter().position(|c| c == k) {
                    if let Some(f) = fired.iter_mut().rev().find(|f| f.0 == ci && f.2.is_none()) {
                        f.2 = Some(*t);
                    }
                } else if let Some(pi) = PARTN.iter().position(|p| p == k).or(if k == "Z" { Some(9) } else { None }) {
                    if let Some(f) = singles.iter_mut().rev().find(|f: &&mut (usize, u64, Option<u64>)| f.0 == pi && f.2.is_none()) {
                        f.2 = Some(*t);
                    }
                }
            }
            _ => {}
        }
    }
    Obs { fired, singles, held: crate::sim::os_down_set(&tr), tstr: crate::sim::trace_to_string(&tr) }
}

/// one structured case: presses (key index, arrival time) in order, releases (key index, time)
fn judge_structured(t: &Table, presses: &[(usize, u64)], releases: &[(usize, u64)], layer_held: bool, o: &Obs) -> Option<(String, String)> {
    if !o.held.is_empty() {
        return Some(("stuck".into(), format!("held after settle: {:?}; trace [{}]", o.held, o.tstr)));
    }
    let chord_keys: Vec<usize> = presses.iter().filter(|p| p.0 < 4).map(|p| p.0).collect();
    let smask: u8 = chord_keys.iter().fold(0, |m, k| m | (1 << k));
    // accounting
    let mut accounted: Vec<usize> = vec![];
    for (ci, _, _) in &o.fired {
        for b in 0..4 {
            if t.chords[*ci] & (1 << b) != 0 {
                accounted.push(b);
            }
        }
    }
    for (k, _, _) in &o.singles {
        accounted.push(*k);
    }
    let mut want: Vec<usize> = presses.iter().map(|p| p.0).collect();
    accounted.sort();
    want.sort();
    if accounted != want {
        let cls = if accounted.len() < want.len() { "key-swallowed" } else if accounted.len() > want.len() { "key-doubled" } else { "wrong-keys" };
        return Some((format!("accounting::{cls}"), format!("pressed {want:?} (0..3 = a..d, 9 = z) but fired chords {:?} + own actions {:?} account for {accounted:?}; trace [{}]", o.fired, o.singles, o.tstr)));
    }
    let is_enabled = |ci: usize| !(layer_held && t.disabled & (1 << ci) != 0);
    if let Some(f) = o.fired.iter().find(|f| !is_enabled(f.0)) {
        return Some(("fired-on-disabled-layer".into(), format!("chord {} fired although it is disabled on the held layer; trace [{}]", f.0, o.tstr)));
    }
    let first_t = presses.iter().filter(|p| p.0 < 4).map(|p| p.1).min();
    let last_t = presses.iter().filter(|p| p.0 < 4).map(|p| p.1).max();
    // a non-chord key pressed before the last participant (in the middle, or first: the
    // chords-v2-min-idle window then disables chord activation) makes the exact case inapplicable
    let z_between = presses.iter().any(|p| p.0 == 9) && {
        let zi = presses.iter().position(|p| p.0 == 9).unwrap();
        zi < presses.len() - 1
    };
    let first_rel = releases.iter().filter(|r| r.0 < 4).map(|r| r.1).min();
    let pressed_before_any_release = match (last_t, first_rel) {
        (Some(l), Some(r)) => l <= r,
        _ => true,
    };
    if let (Some(ci), Some(ft), Some(lt)) = (t.chords.iter().enumerate().position(|(i, m)| *m == smask && is_enabled(i)), first_t, last_t) {
        let enabled = true;
        let span = lt - ft;
        // exact: all pressed within the timeout, nothing foreign in between
        if enabled && !z_between && span + 1 < T as u64 && pressed_before_any_release {
            let only_that = o.fired.len() == 1 && o.fired[0].0 == ci && o.singles.iter().all(|s| s.0 == 9);
            if !only_that {
                return Some(("exact-chord-not-fired".into(), format!("all keys of chord {ci} pressed within {span} < {T} ticks: expected exactly its action once and no participant action; fired {:?}, own actions {:?}; trace [{}]", o.fired, o.singles, o.tstr)));
            }
        }
    }
    // none: S contains no defined chord
    if !t.chords.iter().enumerate().any(|(i, m)| m & smask == *m && is_enabled(i)) {
        if !o.fired.is_empty() {
            return Some(("phantom-chord".into(), format!("no defined chord is contained in the pressed set, but {:?} fired; trace [{}]", o.fired, o.tstr)));
        }
        let order: Vec<usize> = o.singles.iter().map(|s| s.0).collect();
        let want_order: Vec<usize> = presses.iter().map(|p| p.0).collect();
        if order != want_order {
            return Some(("order".into(), format!("keys not completing a chord must keep their press order {want_order:?}, observed {order:?}; trace [{}]", o.tstr)));
        }
    }
    // release rule (v2) / upper bound (both)
    let last_rel = releases.iter().filter(|r| r.0 < 4).map(|r| r.1).max().unwrap_or(0);
    for (ci, dn, up) in &o.fired {
        let Some(up) = up else { continue };
        let part_rels: Vec<u64> = releases.iter().filter(|r| r.0 < 4 && t.chords[*ci] & (1 << r.0) != 0).map(|r| r.1).collect();
        let lastp = part_rels.iter().copied().max().unwrap_or(last_rel);
        let firstp = part_rels.iter().copied().min().unwrap_or(last_rel);
        // processing latency: queued releases are replayed after the chord timeout / rapid-event-delay
        let slack = T as u64 + 8 + 2 * (presses.len() as u64 + releases.len() as u64);
        if *up > lastp.max(*dn) + slack {
            return Some(("released-too-late".into(), format!("chord {ci} action released at {up}, later than its last participant's release at {lastp} (+{slack}); trace [{}]", o.tstr)));
        }
        if t.v2 {
            if t.first_release {
                if *up > firstp.max(*dn) + slack {
                    return Some(("first-release-late".into(), format!("first-release chord {ci} released at {up}, first participant released at {firstp}; trace [{}]", o.tstr)));
                }
            } else if *up < lastp && *dn <= firstp {
                return Some(("all-released-early".into(), format!("all-released chord {ci} released at {up} before its last participant's release at {lastp}; trace [{}]", o.tstr)));
            }
        } else if t.chords[*ci] == smask && o.fired.len() == 1 && o.singles.iter().all(|s| s.0 == 9) && *up < lastp && *dn <= firstp {
            // v1, config.adoc "Release behaviour": for single key actions an input chord releases the
            // action only when ALL keys of the chord have been released. Applies when exactly the
            // pressed chord fired (no decomposition).
            return Some(("v1-released-before-all-participants".into(), format!("v1 chord {ci} (exactly the pressed set, single-key action) released at {up} before its last participant's release at {lastp}; trace [{}]", o.tstr)));
        }
    }
    // a key whose own action was output (no chord, or a decomposed part of one key) is an ordinary
    // key from then on: its output goes up when THAT key is released, not when some other key is
    for (k, dn, up) in &o.singles {
        let (Some(up), Some(rel)) = (up, releases.iter().find(|r| r.0 == *k).map(|r| r.1)) else { continue };
        let slack = T as u64 + 8 + 2 * (presses.len() as u64 + releases.len() as u64);
        if *up > rel.max(*dn) + slack {
            return Some(("own-action-released-too-late".into(), format!("key {k}'s own action went up at {up} although the key was released at {rel} (+{slack} allowed); trace [{}]", o.tstr)));
        }
    }
    None
}

fn run_structured(t: &Table, quick: bool, st: &mut Stats) -> Vec<Violation> {
    let cfg = t.cfg();
    let mut found: Vec<Violation> = vec![];
    let codes: Vec<u16> = PART[..t.nparts].iter().map(|k| kc(k)).collect();
    let (zc, nc) = (kc("z"), kc("n"));
    let all_gaps = [0u32, 1, T - 1, T, T + 1];
    let gaps: &[u32] = if t.light == 1 { &all_gaps[..2] } else { &all_gaps[..] };
    for smask in 1u8..(1 << t.nparts) {
        let skeys: Vec<usize> = (0..t.nparts).filter(|b| smask & (1 << b) != 0).collect();
        for pp in perms(skeys.len()) {
            // z insertion positions: None or 0..=len
            for zpos in std::iter::once(None).chain((0..=skeys.len()).map(Some)).take(if t.light > 0 { 1 } else { usize::MAX }) {
                let mut order: Vec<usize> = pp.iter().map(|i| skeys[*i]).collect();
                if let Some(z) = zpos {
                    order.insert(z, 9);
                }
                // quick tier: with the foreign key in the history the press gaps are drawn from {0, 1, T+1}
                let gaps_z = [0u32, 1, T + 1];
                let gaps: &[u32] = if quick && zpos.is_some() && t.light == 0 { &gaps_z[..] } else { gaps };
                // gap vectors for presses after the first
                let ng = order.len() - 1;
                let mut gv = vec![0usize; ng];
                loop {
                    // releases 1 tick apart; and, for the all-0 / all-1 press-gap vectors, 45 ticks apart
                    // (longer than any processing latency: shows which key each output is bound to)
                    let rel_gaps: &[u32] = if zpos.map(|z| z + 1 == order.len()).unwrap_or(true) && (gv.iter().all(|g| *g == 0) || gv.iter().all(|g| *g == 1)) { &[1, 45] } else { &[1] };
                    for (rp, rel_gap) in perms(order.len()).into_iter().flat_map(|rp| rel_gaps.iter().map(move |g| (rp.clone(), *g))) {
                        if found.len() >= 4 {
                            return found;
                        }
                        // build history
                        let layer_held = t.disabled != 0;
                        let mut h = vec![Ev::T(8)];
                        let mut now = 8u64;
                        if layer_held {
                            h.insert(0, Ev::P(nc));
                        }
                        let mut presses = vec![];
                        for (i, k) in order.iter().enumerate() {
                            if i > 0 {
                                let g = gaps[gv[i - 1]];
                                if g > 0 {
                                    h.push(Ev::T(g));
                                    now += g as u64;
                                }
                            }
                            h.push(Ev::P(if *k == 9 { zc } else { codes[*k] }));
                            presses.push((*k, now));
                        }
                        h.push(Ev::T(2));
                        now += 2;
                        let mut releases = vec![];
                        for ri in &rp {
                            let k = order[*ri];
                            h.push(Ev::R(if k == 9 { zc } else { codes[k] }));
                            releases.push((k, now));
                            h.push(Ev::T(rel_gap));
                            now += rel_gap as u64;
                        }
                        if layer_held {
                            h.push(Ev::R(nc));
                        }
                        h.push(Ev::T(40));
                        st.evaluations += 1;
                        crate::par::announce(&cfg, &h);
                        match crate::sim::run_fresh(&cfg, &h) {
                            Err(m) => {
                                if !found.iter().any(|f| f.signature.ends_with(&panic_signature(&m))) {
                                    found.push(mk_violation("C09", format!("{}::{}", if t.v2 { "v2" } else { "v1" }, panic_signature(&m)), m, "structured", &cfg, &h, json!({})));
                                }
                            }
                            Ok((s, _)) => {
                                st.validated += 1;
                                st.transitions += h.len() as u64;
                                let o = observe(&s, t.chords.len());
                                st.outcome(&format!("fired{}", o.fired.len().min(2)));
                                st.distinct_traces.insert(crate::sim::hash_str(&o.tstr));
                                if let Some((sig, what)) = judge_structured(t, &presses, &releases, layer_held, &o) {
                                    let sig = format!("{}::{}", if t.v2 { "v2" } else { "v1" }, sig);
                                    if !found.iter().any(|f| f.signature == sig) {
                                        found.push(mk_violation("C09", sig, format!("{} [{}]: {}", t.tag(), crate::sim::hist_to_string(&h), what), "structured", &cfg, &h, json!({"presses": presses, "releases": releases, "layer_held": layer_held})));
                                    }
                                }
                            }
                        }
                    }
                    let mut k = 0;
                    while k < ng {
                        gv[k] += 1;
                        if gv[k] < gaps.len() {
                            break;
                        }
                        gv[k] = 0;
                        k += 1;
                    }
                    if k == ng {
                        break;
                    }
                }
            }
        }
    }
    found
}

fn run_generic(t: &Table, depth: usize, st: &mut Stats) -> Vec<Violation> {
    let cfg = t.cfg();
    let mut alpha = vec![];
    for k in ["a", "b", "c", "z"] {
        alpha.push(Ev::P(kc(k)));
        alpha.push(Ev::R(kc(k)));
    }
    alpha.push(Ev::T(1));
    alpha.push(Ev::T(T + 1));
    let mut found: Vec<Violation> = vec![];
    for_each_history(&alpha, depth, Consistency::Physical, &[], |h, _first_new, down| {
        if found.len() >= 3 {
            return;
        }
        let mut full = h.to_vec();
        full.push(Ev::T(1));
        for e in completion(down, false) {
            full.push(e);
            full.push(Ev::T(1));
        }
        full.push(Ev::T(30));
        st.evaluations += 1;
        match crate::sim::run_fresh(&cfg, &full) {
            Err(m) => found.push(mk_violation("C09", format!("{}::generic::{}", if t.v2 { "v2" } else { "v1" }, panic_signature(&m)), m, "generic", &cfg, &full, json!({}))),
            Ok((s, _)) => {
                st.validated += 1;
                st.transitions += full.len() as u64;
                let o = observe(&s, t.chords.len());
                let npresses = full.iter().filter(|e| matches!(e, Ev::P(_))).count();
                let accounted: usize = o.fired.iter().map(|f| t.chords[f.0].count_ones() as usize).sum::<usize>() + o.singles.len();
                st.outcome(&format!("generic/fired{}", o.fired.len().min(2)));
                let sigp = if t.v2 { "v2" } else { "v1" };
                let v = if !o.held.is_empty() {
                    Some((format!("{sigp}::generic::stuck"), format!("held after settle {:?}", o.held)))
                } else if accounted < npresses && {
                    // Re-completion of a chord that is still active: with staggered releases and
                    // re-presses (a up, a down, b up, b down) the participants are never all released,
                    // so an all-released chord stays down the whole time and completing it again has
                    // nothing new to press. Those presses are accounted for by the active chord.
                    let mut now = 0u64;
                    let mut press_times: Vec<(usize, u64)> = vec![];
                    for e in &full {
                        match e {
                            Ev::T(n) => now += *n as u64,
                            Ev::P(c) => {
                                if let Some(pi) = PART.iter().position(|k| kc(k) == *c) {
                                    press_times.push((pi, now));
                                }
                            }
                            _ => {}
                        }
                    }
                    let mut allowance = 0usize;
                    for (ci, _dn, up) in &o.fired {
                        let until = up.map(|u| u + 1).unwrap_or(u64::MAX);
                        let parts: Vec<usize> = (0..4).filter(|b| t.chords[*ci] & (1 << b) != 0).collect();
                        let completions = parts.iter().map(|p| press_times.iter().filter(|(k, tm)| k == p && *tm <= until).count()).min().unwrap_or(0);
                        allowance += completions.saturating_sub(1) * parts.len();
                    }
                    let ok = npresses - accounted <= allowance;
                    if ok {
                        st.outcome("generic/re-completion-of-active-chord");
                    }
                    ok
                } {
                    None
                } else if accounted != npresses {
                    // discriminator: a key released and pressed again within the same millisecond
                    let same_ms_repress = full.windows(2).any(|w| matches!((w[0], w[1]), (Ev::R(x), Ev::P(y)) if x == y));
                    Some((format!("{sigp}::generic::accounting::{}{}", if accounted < npresses { "key-swallowed" } else { "key-doubled" }, if same_ms_repress { "/same-ms-re-press" } else { "" }), format!("{npresses} presses but chords {:?} + own actions {:?} account for {accounted}", o.fired, o.singles)))
                } else {
                    None
                };
                if let Some((sig, what)) = v {
                    if !found.iter().any(|f| f.signature == sig) {
                        found.push(mk_violation("C09", sig, format!("{} [{}]: {what}; trace [{}]", t.tag(), crate::sim::hist_to_string(&full), o.tstr), "generic", &cfg, &full, json!({})));
                    }
                }
            }
        }
    });
    found
}

fn run_job(tier: Tier, idx: usize, st: &mut Stats) {
    let j = &jobs(tier)[idx];
    let cfg = j.table.cfg();
    if let Err(e) = Sim::new(&cfg) {
        st.configs_rejected += 1;
        st.outcome("rejected");
        st.sample(json!({"rejected": e.chars().take(300).collect::<String>(), "cfg": cfg}));
        return;
    }
    st.configs_accepted += 1;
    let found = match j.generic_depth {
        None => run_structured(&j.table, tier == Tier::Quick, st),
        Some(d) => run_generic(&j.table, d, st),
    };
    if idx % 23 == 0 {
        st.sample(json!({"table": j.table.tag(), "cfg": cfg, "family": if j.generic_depth.is_some() { "generic" } else { "structured" }}));
    }
    for mut v in found {
        if let Some(e) = v.detail.get_mut("extra") {
            e["job"] = json!(idx);
            e["tier"] = json!(tier.name());
        }
        st.violation(v);
    }
}

fn replay(d: &serde_json::Value) -> Vec<Violation> {
    let idx = d.get("extra").and_then(|e| e.get("job")).and_then(|x| x.as_u64()).unwrap_or(0) as usize;
    let tier = Tier::parse(d.get("extra").and_then(|e| e.get("tier")).and_then(|x| x.as_str()).unwrap_or("quick"));
    let mut st = Stats::default();
    run_job(tier, idx.min(n_jobs(tier) - 1), &mut st);
    st.violations
}
