//! C01 — no stuck output: once all keys are up, everything is released, output stops, idle is reported.
use super::*;
use crate::cfggen::*;
use crate::explore::*;
use crate::par::{PropDef, Stats, Tier};
use crate::sim::{kc, os_down_set, Ev, Sim};
use serde_json::json;
use std::sync::OnceLock;

pub fn def() -> PropDef {
    PropDef {
        id: "C01",
        level: "model_checking",
        n_jobs,
        job_level,
        run_job,
        replay,
        rule: "configs: every non-latching action-menu entry on key a (b, c plain) [U1]; curated feature-interaction configs [U3] and zippychord configs (two-key chord, single-key follow-up, top-level single-key chord; also explored from the state right after the two-key chord was typed); thorough adds all pairs on (a, b) [U2]. Histories: ALL physically consistent histories of exactly D steps over {press/release a,b,c, repeat a, tick 1, tick 6}, each completed by releasing the keys still down in ascending AND descending order, then the idle loop (can_block_update_idle_waiting(1) / tick_ms(1), as start_processing_loop does) until it reports idle, bounded by a 400-tick horizon. Capacity family: N in 30..=70 keys of one kind (plain, tap-hold, one-shot, layer-while-held, multi of 3, v1-chord member) + 3 probe keys (mwheel, mouse button, unmod), press tick pattern x release order x release tick pattern, all combinations. Oracle: loop reports idle within the horizon; OS-down set (keys, mouse buttons, raw codes) empty; 60 further ticks emit nothing and idle stays true. Distinct = distinct state digests.",
        assumptions: &[
            "configs outside the enumerated universes and histories longer than the completed depth are not covered",
            "latching actions (press-vkey / toggle-vkey without release) and live-reload requests are excluded as the property allows (reload is C15)",
            "settle horizon 400 ticks for time constants <= 8 ticks",
        ],
        required_level,
        min_outcomes: 3,
    }
}

#[derive(Clone)]
struct Job {
    tag: String,
    cfg: String,
    depth: usize,
    prefix: Vec<Ev>,
    kind: u8, // 0 history exploration, 1 capacity scenario batch
    cap_kind: usize,
    cap_n: usize,
    level: u32,
}

pub const CURATED: &[(&str, &str, &str, &str, &str, bool, bool)] = &[
    // (tag, a, b, c, defcfg, chords_v2, overrides)
    ("th+os+layer", "(tap-hold 5 5 x lsft)", "(one-shot 8 lctl)", "(layer-while-held nav)", "", false, false),
    ("th+th-conc", "(tap-hold 5 5 x lsft)", "(tap-hold-release 5 8 y lctl)", "c", "concurrent-tap-hold yes", false, false),
    ("cv2+th", "(tap-hold-press 5 5 x lsft)", "b", "c", "concurrent-tap-hold yes", true, false),
    ("cv2+os", "(one-shot 8 lsft)", "b", "c", "concurrent-tap-hold yes", true, false),
    ("macro+cancel+vk", "(macro-cancel-on-press x 3 y 3 z)", "(multi (on-press press-vkey v2) (on-release release-vkey v2))", "(macro-release-cancel x 2 y 2 z)", "", false, false),
    ("seq+override", "sldr", "x", "y", "sequence-timeout 6", false, true),
    ("seq-visible", "sldr", "x", "y", "sequence-timeout 6 sequence-input-mode visible-backspaced", false, false),
    ("seq-hidden-delay", "sldr", "x", "y", "sequence-timeout 6 sequence-input-mode hidden-delay-type", false, false),
    ("td+th+os", "(tap-dance 5 (x (tap-hold 5 5 y lctl)))", "(one-shot-release 8 lsft)", "c", "", false, false),
    ("td-eager+lwh", "(tap-dance-eager 5 (x y z))", "(layer-while-held nav)", "c", "", false, false),
    ("chord1x2", "(chord grp2 ka)", "(chord grp2 kb)", "c", "", false, false),
    ("chord1+th", "(chord grp2 ka)", "(chord grp2 kb)", "(tap-hold 5 5 x lsft)", "", false, false),
    ("os+os+key", "(one-shot-press 8 lsft)", "(one-shot-release 8 lctl)", "x", "", false, false),
    ("os-pc+os", "(one-shot-press-pcancel 8 lsft)", "(one-shot 8 lalt)", "x", "", false, false),
    ("capsword+th", "(caps-word 8)", "(tap-hold 5 5 x lsft)", "y", "", false, false),
    ("unmod+shift", "lsft", "(unmod x)", "(unshift y)", "", false, false),
    ("fork+switch", "lsft", "(fork x y (lsft))", "(switch ((and lsft (not b))) z break () x break)", "", false, false),
    ("mouse", "(mwheel-up 3 120)", "(movemouse-accel-down 2 6 1 5)", "mlft", "", false, false),
    // continuous mouse actions listed BEFORE / AFTER a button inside one multi: releasing the key must stop all of them
    ("mouse-multi", "(multi (mwheel-up 3 120) mlft)", "(multi (movemouse-left 2 1) mrgt x)", "(multi mmid (mwheel-left 2 120) (movemouse-up 2 1))", "", false, false),
    ("mouse-smooth", "(movemouse-up 2 1)", "(movemouse-left 2 1)", "(movemouse-speed 200)", "movemouse-smooth-diagonals yes", false, false),
    ("rpt+th", "(tap-hold 5 5 x lsft)", "rpt", "rpt-any", "", false, false),
    ("rel-key", "lsft", "(multi x (release-key lsft))", "(multi (layer-while-held nav) (release-layer nav))", "", false, false),
    ("dynmacro", "(dynamic-macro-record 1)", "(dynamic-macro-play 1)", "x", "", false, false),
    ("dynmacro-th", "(dynamic-macro-record 1)", "(dynamic-macro-play 1)", "(tap-hold 5 5 x lsft)", "dynamic-macro-replay-delay-behaviour recorded", false, false),
    ("hold-dur+idle", "(hold-for-duration 4 v1)", "(on-idle 4 tap-vkey v1)", "x", "", false, false),
    ("override-rel", "lsft", "x", "lctl", "override-release-on-activation yes", false, true),
    ("th-rapid0", "(tap-hold 5 5 x lsft)", "(one-shot 8 lctl)", "c", "rapid-event-delay 0", false, false),
    ("trans-delegate", "_", "(layer-while-held nav)", "(layer-switch nav)", "delegate-to-first-layer yes", false, false),
    ("macro-rep+td", "(macro-repeat x 2 y)", "(tap-dance 5 (x y))", "c", "", false, false),
    ("th-exc+th-relk", "(tap-hold-except-keys 5 5 x lsft (b))", "(tap-hold-release-keys 5 5 y lctl (c))", "c", "", false, false),
    ("arbitrary+unicode", "(arbitrary-code 700)", "(unicode ü)", "(multi lsft (arbitrary-code 3))", "", false, false),
];

pub fn curated_cfg(i: usize) -> String {
    let (_, a, b, c, defcfg, cv2, ovr) = CURATED[i];
    let mut o = CfgOpts { defcfg: defcfg.to_string(), chords_v2: cv2, overrides: ovr, ..Default::default() };
    if a.contains("grp2") {
        o.extra = "(defchords grp2 5 (ka) x (kb) y (ka kb) z)\n".into();
    }
    cfg3(a, b, c, &o)
}

pub fn excluded_from_c01(m: &MenuItem) -> bool {
    m.latching || m.tag.starts_with("lrld") || m.tag == "vk-idle" || m.tag == "vk-idle-old"
}

const CAP_KEYS: &[&str] = &[
    "a", "b", "c", "d", "e", "f", "g", "h", "i", "j", "k", "l", "m", "n", "o", "p", "q", "r", "s", "t", "u", "v", "w", "x", "y", "z", "1", "2", "3", "4", "5", "6",
    "7", "8", "9", "0", "f1", "f2", "f3", "f4", "f5", "f6", "f7", "f8", "f9", "f10", "f11", "f12", "grv", "tab", "caps", "ret", "spc", "bspc", "esc", "ins", "del",
    "home", "end", "pgup", "pgdn", "up", "down", "left", "rght", "min", "eql", "lbrc", "rbrc", "scln", "apos", "comm", "kp1", "kp2", "kp3",
];
const CAP_KINDS: &[&str] = &["plain", "tap-hold", "one-shot", "layer-while-held", "multi3", "chord1"];

fn cap_cfg(kind: usize, n: usize) -> String {
    let keys = &CAP_KEYS[..n];
    let probes = &CAP_KEYS[n..n + 3];
    let mut s = String::from("(defcfg)\n(defsrc");
    for k in keys.iter().chain(probes.iter()) {
        s += &format!(" {k}");
    }
    s += ")\n(deflayer base";
    for (i, k) in keys.iter().enumerate() {
        let a = match kind {
            0 => k.to_string(),
            1 => format!("(tap-hold 5 5 {k} lsft)"),
            2 => format!("(one-shot 8 {k})"),
            3 => "(layer-while-held nav)".to_string(),
            4 => format!("(multi {k} lctl lalt)"),
            _ => format!("(chord big k{i})"),
        };
        s += &format!(" {a}");
    }
    s += " (mwheel-up 3 120) mlft (unmod x))\n(deflayer nav";
    for k in keys.iter().chain(probes.iter()) {
        s += &format!(" {k}");
    }
    s += ")\n";
    if kind == 5 {
        s += "(defchords big 5";
        for (i, k) in keys.iter().enumerate() {
            s += &format!(" (k{i}) {k}");
        }
        s += " (k0 k1) x)\n";
    }
    s
}

fn cap_scenarios(n: usize) -> Vec<Vec<Ev>> {
    let keys: Vec<u16> = CAP_KEYS[..n].iter().map(|k| kc(k)).collect();
    let probes: Vec<u16> = CAP_KEYS[n..n + 3].iter().map(|k| kc(k)).collect();
    let mut out = vec![];
    for ptick in 0..3 {
        for rev in [false, true] {
            for rtick in 0..3 {
                for probe_first in [false, true] {
                    let mut h = vec![];
                    let tick = |pat: usize, i: usize, h: &mut Vec<Ev>| match pat {
                        1 => h.push(Ev::T(1)),
                        2 if i % 4 == 3 => h.push(Ev::T(1)),
                        _ => {}
                    };
                    for (i, k) in keys.iter().enumerate() {
                        h.push(Ev::P(*k));
                        tick(ptick, i, &mut h);
                    }
                    for p in &probes {
                        h.push(Ev::P(*p));
                        h.push(Ev::T(1));
                    }
                    h.push(Ev::T(7));
                    let mut order: Vec<u16> = keys.clone();
                    if rev {
                        order.reverse();
                    }
                    if probe_first {
                        for p in &probes {
                            h.push(Ev::R(*p));
                            h.push(Ev::T(1));
                        }
                    }
                    for (i, k) in order.iter().enumerate() {
                        h.push(Ev::R(*k));
                        tick(rtick, i, &mut h);
                    }
                    if !probe_first {
                        for p in &probes {
                            h.push(Ev::R(*p));
                        }
                    }
                    out.push(h);
                }
            }
        }
    }
    out
}

fn alphabet() -> Vec<Ev> {
    let (a, b, c) = (kc("a"), kc("b"), kc("c"));
    vec![Ev::P(a), Ev::R(a), Ev::P(b), Ev::R(b), Ev::P(c), Ev::R(c), Ev::Rep(a), Ev::T(1), Ev::T(6)]
}

fn jobs(tier: Tier) -> &'static Vec<Job> {
    static Q: OnceLock<Vec<Job>> = OnceLock::new();
    static T: OnceLock<Vec<Job>> = OnceLock::new();
    let cell = match tier {
        Tier::Quick => &Q,
        Tier::Thorough => &T,
    };
    cell.get_or_init(|| {
        let menu: Vec<MenuItem> = action_menu(5).into_iter().filter(|m| !excluded_from_c01(m)).collect();
        let o = CfgOpts::default();
        let alpha = alphabet();
        let mut v = vec![];
        let levels: &[(u32, usize, usize, Option<usize>)] = match tier {
            // (level, depth U1, depth U3, depth U2)
            Tier::Quick => &[(0, 5, 4, None)],
            Tier::Thorough => &[(0, 5, 4, None), (1, 6, 5, Some(4)), (2, 7, 6, Some(5))],
        };
        for (lvl, d1, d3, d2) in levels.iter().copied() {
            let pre1 = prefixes(&alpha, if d1 >= 6 { 2 } else { 1 }, Consistency::Physical);
            for m in &menu {
                let cfg = cfg3(&m.text, "b", "c", &o);
                for p in &pre1 {
                    v.push(Job { tag: format!("U1/{}", m.tag), cfg: cfg.clone(), depth: d1, prefix: p.clone(), kind: 0, cap_kind: 0, cap_n: 0, level: lvl });
                }
            }
            for i in 0..CURATED.len() {
                let cfg = curated_cfg(i);
                for p in &pre1 {
                    v.push(Job { tag: format!("U3/{}", CURATED[i].0), cfg: cfg.clone(), depth: d3, prefix: p.clone(), kind: 0, cap_kind: 0, cap_n: 0, level: lvl });
                }
            }
            for (tag, text) in EXTRA_CFGS {
                for p in &pre1 {
                    v.push(Job { tag: format!("U3x/{tag}"), cfg: text.to_string(), depth: d3 + 1, prefix: p.clone(), kind: 0, cap_kind: 0, cap_n: 0, level: lvl });
                }
                // after the two-key chord has been typed and released: follow-up chords are armed
                let (a, b) = (kc("a"), kc("b"));
                v.push(Job { tag: format!("U3x/{tag}/after-chord"), cfg: text.to_string(), depth: 4 + 4, prefix: vec![Ev::P(a), Ev::P(b), Ev::R(a), Ev::R(b)], kind: 0, cap_kind: 0, cap_n: 0, level: lvl });
            }
            if let Some(d2) = d2 {
                for m1 in &menu {
                    for m2 in &menu {
                        let cfg = cfg3(&m1.text, &m2.text, "c", &o);
                        v.push(Job { tag: format!("U2/{}/{}", m1.tag, m2.tag), cfg, depth: d2, prefix: vec![], kind: 0, cap_kind: 0, cap_n: 0, level: lvl });
                    }
                }
            }
            if lvl == 0 {
                for kind in 0..CAP_KINDS.len() {
                    for n in 30..=70 {
                        v.push(Job { tag: format!("cap/{}/{}", CAP_KINDS[kind], n), cfg: String::new(), depth: 0, prefix: vec![], kind: 1, cap_kind: kind, cap_n: n, level: 0 });
                    }
                }
            }
        }
        v
    })
}

fn n_jobs(t: Tier) -> usize {
    jobs(t).len()
}
fn job_level(t: Tier, i: usize) -> u32 {
    jobs(t)[i].level
}
fn required_level(_t: Tier) -> u32 {
    0
}

/// Full-text configs (with embedded files) explored like the curated ones: (tag, text, prefix history)
pub const EXTRA_CFGS: &[(&str, &str)] = &[
    // zippychord: a two-key chord, a single-key follow-up of it, and a top-level single-key chord
    ("zippy", ";; KMC-FILE file ab\\txy\\nab c\\tzq\\nc\\tw\n(defcfg)\n(defsrc a b c)\n(deflayer base a b c)\n(defzippy file on-first-press-chord-deadline 20 idle-reactivate-time 5)\n"),
    ("zippy-smart-space", ";; KMC-FILE file ab\\txy\\nab c\\tzq\n(defcfg)\n(defsrc a b c)\n(deflayer base a b c)\n(defzippy file on-first-press-chord-deadline 20 idle-reactivate-time 5 smart-space full)\n"),
];

pub const HORIZON: u32 = 400;
const QUIET: u32 = 60;

/// Runs the idle loop the way start_processing_loop does (can_block? else tick), then checks the
/// C01 oracle. Returns Some((signature, what)) on violation.
pub fn settle_and_check(s: &mut Sim) -> Result<(String, u32), (String, String)> {
    let mut idle_at: Option<u32> = None;
    for t in 0..HORIZON {
        let cb = crate::sim::guarded(|| s.k.can_block_update_idle_waiting(1)).map_err(|p| (panic_signature(&p), format!("panic in can_block: {p}")))?;
        if cb {
            idle_at = Some(t);
            break;
        }
        s.step(Ev::T(1)).map_err(|m| (panic_signature(&m), m))?;
    }
    let tr = s.trace();
    let down = os_down_set(&tr);
    let Some(idle_at) = idle_at else {
        return Err(("never-idle".into(), format!("not idle after {HORIZON} ticks with all keys up; OS-down set {:?}", down)));
    };
    if !down.is_empty() {
        let mut d = down.clone();
        d.sort();
        return Err((format!("stuck::{}", d.join("+")), format!("idle reported but still held at the OS: {:?}", down)));
    }
    let n0 = s.n_out();
    s.step(Ev::T(QUIET)).map_err(|m| (panic_signature(&m), m))?;
    if s.n_out() != n0 {
        let extra: Vec<String> = s.raw_outputs()[n0..].iter().take(4).cloned().collect();
        return Err(("output-after-idle".into(), format!("output emitted after idle was reported: {:?}", extra)));
    }
    if !s.k.is_idle() {
        return Err(("idle-revoked".into(), "is_idle() false after a quiet period that followed idle".into()));
    }
    let cls = if tr.is_empty() { "no-output" } else if idle_at == 0 { "idle-immediately" } else if idle_at < 10 { "idle<10" } else { "idle>=10" };
    Ok((cls.to_string(), idle_at))
}

/// top-level cells of a `(deflayer name c1 c2 c3 ...)` line (balanced parentheses)
fn cells_of_first_layer(line: &str) -> Vec<String> {
    let inner = line.trim().trim_start_matches("(deflayer").trim_end_matches(')');
    let mut cells = vec![];
    let mut depth = 0i32;
    let mut cur = String::new();
    for ch in inner.chars() {
        match ch {
            '(' => {
                depth += 1;
                cur.push(ch);
            }
            ')' => {
                depth -= 1;
                cur.push(ch);
            }
            c if c.is_whitespace() && depth == 0 => {
                if !cur.is_empty() {
                    cells.push(std::mem::take(&mut cur));
                }
            }
            c => cur.push(c),
        }
    }
    if !cur.is_empty() {
        cells.push(cur);
    }
    // drop the layer name
    cells.into_iter().skip(1).collect()
}

/// Executes one history step by step. Also observes whether the 32-slot input queue was full when
/// a further input event arrived (the overflow path of `Layout::event`), which classifies the
/// execution for the known finding on queue overflow.
fn check(cfg: &str, hist: &[Ev], first_new: usize, st: &mut Stats) -> Option<Violation> {
    crate::par::announce(cfg, hist);
    let mut s = match Sim::new(cfg) {
        Ok(s) => s,
        Err(e) => return Some(mk_violation("C01", panic_signature(&e), format!("config rejected/panicked: {}", e.chars().take(200).collect::<String>()), "history", cfg, hist, json!({}))),
    };
    st.evaluations += 1;
    let mut overflowed = false;
    for (i, e) in hist.iter().enumerate() {
        if matches!(e, Ev::P(_) | Ev::R(_) | Ev::Tap(_)) {
            let l = s.k.layout.b();
            let full = match &l.chords_v2 {
                Some(_) => false, // chords v2 owns its own queue; overflow there is C02's known finding
                None => l.queue.len() >= l.queue.capacity(),
            };
            overflowed |= full;
        }
        if let Err(m) = s.step(*e) {
            // a crash is C02's finding; it also breaks "eventually idle"
            return Some(mk_violation("C01", panic_signature(&m), format!("{m} at step {i}"), "history", cfg, hist, json!({})));
        }
        if i >= first_new {
            st.transitions += 1;
            st.states.insert(s.digest());
        }
    }
    match settle_and_check(&mut s) {
        Ok((cls, _)) => {
            st.outcome(&cls);
            if overflowed {
                st.count("executions_with_queue_overflow", 1);
            }
            st.distinct_traces.insert(crate::sim::hash_str(&crate::sim::trace_to_string(&s.trace())));
            None
        }
        Err((sig, what)) => {
            let sig = if overflowed { format!("queue-overflow::{sig}") } else { sig };
            // discriminator for a known finding: a recorded dynamic macro that contains the press of
            // the key which plays that same macro (the recursion guard only works while the replay
            // that pushed the press is still running)
            let sig = if sig == "never-idle" && {
                let d = s.digest_string();
                let play_key = ["a", "b", "c"].iter().zip(cfg.lines().find(|l| l.starts_with("(deflayer")).map(cells_of_first_layer).unwrap_or_default()).find(|(_, cell)| cell.contains("dynamic-macro-play")).map(|(k, _)| k.to_uppercase());
                match (play_key, d.find("dm=["), d.find("dmp=")) {
                    (Some(k), Some(i), Some(j)) if j > i => d[i..j].contains(&format!("Press((KEY_{k},")),
                    _ => false,
                }
            } {
                "never-idle/macro-contains-its-own-play-key".to_string()
            } else {
                sig
            };
            let hs = crate::sim::hist_to_string(hist);
            let hs_short: String = hs.chars().take(160).collect();
            Some(mk_violation("C01", sig, format!("{what} after [{hs_short}{}]", if hs.len() > 160 { " ..." } else { "" }), "history", cfg, hist, json!({"queue_overflowed": overflowed})))
        }
    }
}

fn run_job(tier: Tier, idx: usize, st: &mut Stats) {
    let j = &jobs(tier)[idx];
    if j.kind == 1 {
        let cfg = cap_cfg(j.cap_kind, j.cap_n);
        match Sim::new(&cfg) {
            Err(e) => {
                st.configs_rejected += 1;
                st.outcome("cap-rejected");
                st.sample(json!({"rejected": e.chars().take(200).collect::<String>(), "tag": j.tag}));
                return;
            }
            Ok(_) => st.configs_accepted += 1,
        }
        let mut sigs: Vec<String> = vec![];
        for h in cap_scenarios(j.cap_n) {
            if let Some(mut v) = check(&cfg, &h, 0, st) {
                v.signature = format!("cap/{}::{}", CAP_KINDS[j.cap_kind], v.signature);
                if !sigs.contains(&v.signature) {
                    sigs.push(v.signature.clone());
                    st.violation(v);
                }
            }
        }
        return;
    }
    if j.prefix.is_empty() || idx % 16 == 0 {
        if Sim::new(&j.cfg).is_err() {
            st.configs_rejected += 1;
            st.outcome("rejected");
            return;
        }
    }
    st.configs_accepted += 1;
    let alpha = alphabet();
    let mut found: Vec<Violation> = vec![];
    let mut n = 0u64;
    for_each_history(&alpha, j.depth, Consistency::Physical, &j.prefix, |h, first_new, down| {
        if found.len() >= 6 {
            return;
        }
        for desc in [false, true] {
            if desc && down.len() < 2 {
                continue;
            }
            let mut full = h.to_vec();
            full.extend(completion(down, desc));
            n += 1;
            if let Some(mut v) = check(&j.cfg, &full, if desc { h.len() } else { first_new }, st) {
                // one violation per distinct oracle class per job (first in DFS order = a shortest one)
                v.signature = format!("{}::{}", j.tag, v.signature);
                if !found.iter().any(|f| f.signature == v.signature) {
                    found.push(v);
                }
            }
        }
    });
    if idx % 211 == 0 {
        st.sample(json!({"tag": j.tag, "cfg": j.cfg, "depth": j.depth, "prefix": crate::sim::hist_to_string(&j.prefix), "histories": n}));
    }
    for v in found {
        st.violation(v);
    }
}

fn replay(d: &serde_json::Value) -> Vec<Violation> {
    let Some((cfg, h)) = detail_cfg_hist(d) else { return vec![] };
    let mut st = Stats::default();
    check(&cfg, &h, 0, &mut st).into_iter().collect()
}
