//! C11 — key identity: every key name and code survives the trip from config to OS output.
use super::*;
use crate::par::{PropDef, Stats, Tier};
use crate::sim::{Ev, Out, Sim};
use kanata_keyberon::key_code::KeyCode;
use kanata_parser::keys::OsCode;
use serde_json::json;

pub fn def() -> PropDef {
    PropDef {
        id: "C11",
        level: "exploration",
        n_jobs,
        job_level,
        run_job,
        replay,
        rule: "complete finite spaces: (a) all 65536 u16 values through OsCode::from_u16/as_u16 (round trip is the identity; nothing above KEY_MAX is a key); (b) the discriminant sets of `enum OsCode` (parser/src/keys/mod.rs) and `enum KeyCode` (keyberon/src/key_code.rs) read from the SOURCE TEXT of the working tree are equal value for value (soundness of the transmute), and every `N => Some(OsCode::X)` arm of from_u16_linux agrees with X's discriminant; (c) every key name in the match arms of str_to_oscode (scraped from source): same code through the real function, and through a real config `(defsrc NAME)(deflayer l NAME)` pressing that code outputs that code; (d) every code 0..767 through the full pipeline in three configs: mapped to itself (named via deflocalkeys when it has no name), transparent on a held second layer, and unmapped with process-unmapped-keys yes: press, one OS auto-repeat, release: the OS code that comes out (press, forwarded repeat, release) equals the one that went in, reserved no-op codes 0x2a4..0x2ad are never sent; (d2) built-in key names redefined by deflocalkeys (a letter or digit given another code): the name denotes the new code in defsrc and in actions, the intercepted set holds the new code only; (e) exception lists written in EVERY order (all ordered selections of 2..4 keys from a 5-key pool spanning low and high codes): no listed key is intercepted; mapped-key sets: all defsrc subsets of a 4-key pool x deflayermap inputs subsets of 2 keys x exception lists subsets of 2 keys x process-unmapped-keys {no, yes, all-except}: Cfg.mapped_keys == defsrc + deflayermap inputs (+ all known keys - exceptions). distinct = distinct (case, outcome) classes.",
        assumptions: &["the OS-level pass-through branch of event_loop (evdev) is not executed; the set it consults (mapped keys) is what is checked", "Linux code space (the build target)"],
        required_level,
        min_outcomes: 3,
    }
}

const N_JOBS: usize = 8;
fn n_jobs(_t: Tier) -> usize {
    N_JOBS
}
fn job_level(_t: Tier, _i: usize) -> u32 {
    0
}
fn required_level(_t: Tier) -> u32 {
    0
}

fn viol(sig: &str, what: String, cfg: &str) -> Violation {
    Violation { property: "C11".into(), signature: sig.to_string(), what, detail: json!({"kind": "c11", "cfg": cfg, "history": ""}) }
}

fn keyname(c: u16) -> Option<String> {
    OsCode::from_u16(c).map(|o| format!("{:?}", KeyCode::from(o)))
}

/// enum discriminants from source text: name -> value
fn parse_enum(src: &str, header: &str) -> Vec<(String, u32)> {
    let Some(start) = src.find(header) else { return vec![] };
    let body_start = start + src[start..].find('{').unwrap_or(0) + 1;
    let mut depth = 1;
    let mut end = body_start;
    for (i, ch) in src[body_start..].char_indices() {
        match ch {
            '{' => depth += 1,
            '}' => {
                depth -= 1;
                if depth == 0 {
                    end = body_start + i;
                    break;
                }
            }
            _ => {}
        }
    }
    let mut out = vec![];
    for line in src[body_start..end].lines() {
        let l = line.split("//").next().unwrap_or("").trim();
        if let Some((name, val)) = l.split_once('=') {
            let name = name.trim();
            let val = val.trim().trim_end_matches(',').trim();
            let v = if let Some(h) = val.strip_prefix("0x") { u32::from_str_radix(h, 16).ok() } else { val.parse::<u32>().ok() };
            if let (true, Some(v)) = (name.chars().all(|c| c.is_alphanumeric() || c == '_'), v) {
                out.push((name.to_string(), v));
            }
        }
    }
    out
}

fn job_roundtrip(st: &mut Stats) {
    let mut known = 0u32;
    for c in 0..=u16::MAX {
        st.evaluations += 1;
        match OsCode::from_u16(c) {
            Some(o) => {
                known += 1;
                if o.as_u16() != c {
                    st.violation(viol("roundtrip", format!("OsCode::from_u16({c}).as_u16() = {}", o.as_u16()), ""));
                    return;
                }
                if c > 767 {
                    st.violation(viol("roundtrip-range", format!("code {c} above KEY_MAX is accepted as a key"), ""));
                    return;
                }
                let k = KeyCode::from(o);
                if k as u16 != c || OsCode::from(k) != o {
                    st.violation(viol("oscode-keycode", format!("code {c}: OsCode {:?} <-> KeyCode {:?} ({}): not the same value", o, k, k as u16), ""));
                    return;
                }
            }
            None => {}
        }
    }
    st.count("codes_known", known as u64);
    st.outcome("roundtrip-ok");
    st.sample(json!({"family": "u16 round trip", "values": 65536, "known_codes": known}));
}

fn job_source_enums(st: &mut Stats) {
    let osrc = std::fs::read_to_string("/repo/parser/src/keys/mod.rs").unwrap_or_default();
    let ksrc = std::fs::read_to_string("/repo/keyberon/src/key_code.rs").unwrap_or_default();
    let lsrc = std::fs::read_to_string("/repo/parser/src/keys/linux.rs").unwrap_or_default();
    let os = parse_enum(&osrc, "pub enum OsCode");
    let kc = parse_enum(&ksrc, "pub enum KeyCode");
    st.evaluations += (os.len() + kc.len()) as u64;
    if os.len() < 300 || kc.len() < 300 {
        st.violation(viol("source-parse", format!("could not read the enums from source (OsCode {} variants, KeyCode {} variants)", os.len(), kc.len()), ""));
        return;
    }
    let mut osv: Vec<u32> = os.iter().map(|x| x.1).collect();
    let mut kcv: Vec<u32> = kc.iter().map(|x| x.1).collect();
    osv.sort();
    kcv.sort();
    let dup = |v: &Vec<u32>| v.windows(2).any(|w| w[0] == w[1]);
    if dup(&osv) || dup(&kcv) {
        st.violation(viol("enum-duplicate-discriminant", "duplicate discriminant in OsCode or KeyCode".into(), ""));
        return;
    }
    // KeyCode may contain the sentinel KeyMax beyond OsCode's range; every OsCode value must be a KeyCode value and vice versa up to KEY_MAX
    let kc_in: Vec<u32> = kcv.iter().copied().filter(|v| *v <= 767).collect();
    let os_in: Vec<u32> = osv.iter().copied().filter(|v| *v <= 767).collect();
    if kc_in != os_in {
        let only_os: Vec<&u32> = os_in.iter().filter(|v| !kc_in.contains(v)).collect();
        let only_kc: Vec<&u32> = kc_in.iter().filter(|v| !os_in.contains(v)).collect();
        st.violation(viol("enum-sets-differ", format!("discriminants only in OsCode: {only_os:?}; only in KeyCode: {only_kc:?} (the transmute between them is unsound)"), ""));
        return;
    }
    // from_u16_linux arms
    let mut arms = 0;
    for line in lsrc.lines() {
        let l = line.trim();
        if let Some((n, rest)) = l.split_once("=> Some(OsCode::") {
            if let (Ok(n), Some(name)) = (n.trim().parse::<u32>(), rest.split(')').next()) {
                arms += 1;
                match os.iter().find(|x| x.0 == name) {
                    Some((_, v)) if *v == n => {}
                    other => {
                        st.violation(viol("from_u16-arm", format!("from_u16_linux: {n} => OsCode::{name}, but the enum says {:?}", other.map(|x| x.1)), ""));
                        return;
                    }
                }
            }
        }
    }
    st.evaluations += arms;
    // every OsCode variant that from_u16 knows maps to the variant of that name (placeholder variants
    // such as KEY_749 that from_u16 does not return are not "known key codes")
    let mut placeholders = 0;
    for (name, v) in &os {
        if *v <= 767 {
            match OsCode::from_u16(*v as u16) {
                Some(o) if format!("{:?}", o) == *name => {}
                None => placeholders += 1,
                other => {
                    st.violation(viol("from_u16-wrong-variant", format!("OsCode::{name} = {v} but from_u16({v}) = {:?}", other), ""));
                    return;
                }
            }
        }
    }
    st.count("oscode_placeholder_variants_unknown_to_from_u16", placeholders);
    st.outcome("source-enums-ok");
    st.sample(json!({"family": "source enums", "oscode_variants": os.len(), "keycode_variants": kc.len(), "from_u16_linux_arms": arms}));
}

fn scrape_names() -> Vec<String> {
    let src = std::fs::read_to_string("/repo/parser/src/keys/mod.rs").unwrap_or_default();
    let Some(start) = src.find("pub fn str_to_oscode") else { return vec![] };
    let end = start + src[start..].find("\n}\n").unwrap_or(src.len() - start);
    let body = &src[start..end];
    let mut names = vec![];
    for line in body.lines() {
        if !line.contains("=>") {
            continue;
        }
        let lhs = line.split("=>").next().unwrap_or("");
        let mut rest = lhs;
        while let Some(i) = rest.find('"') {
            let after = &rest[i + 1..];
            if let Some(j) = after.find('"') {
                names.push(after[..j].to_string());
                rest = &after[j + 1..];
            } else {
                break;
            }
        }
    }
    names.sort();
    names.dedup();
    names
}

fn press_release(cfg: &str, pre: &[Ev], code: u16) -> Result<Vec<Out>, String> {
    let mut s = Sim::new(cfg)?;
    s.run(pre)?;
    let n0 = s.n_out();
    // press, one OS auto-repeat while held, release (a forwarded repeat is rendered as a second ↓)
    s.run(&[Ev::P(code), Ev::T(2), Ev::Rep(code), Ev::T(1), Ev::R(code), Ev::T(3)])?;
    Ok(crate::sim::parse_outputs(&s.raw_outputs()[n0..]).into_iter().map(|(_, o)| o).collect())
}

fn job_names(st: &mut Stats) {
    let names = scrape_names();
    if names.len() < 300 {
        st.violation(viol("names-scrape", format!("only {} key names scraped from str_to_oscode", names.len()), ""));
        return;
    }
    let mut checked = 0;
    for n in &names {
        let Some(o) = kanata_parser::keys::str_to_oscode(n) else { continue };
        let c = o.as_u16();
        st.evaluations += 1;
        // same name twice must be the same code (function) — trivially true for a pure function; the
        // pipeline check below is the real one
        let quoted = if n.contains('(') || n.contains(')') || n.contains('"') || n.contains(' ') || n.contains(';') { continue } else { n.clone() };
        let cfg = format!("(defcfg)\n(defsrc {quoted})\n(deflayer l {quoted})\n");
        match press_release(&cfg, &[], c) {
            Err(e) if e.starts_with("PANIC") => {
                st.violation(viol("names-panic", format!("key name {n:?}: {e}"), &cfg));
                return;
            }
            Err(_) => {
                st.count("names_rejected_in_defsrc", 1);
                continue;
            }
            Ok(outs) => {
                checked += 1;
                let want = keyname(c).unwrap_or_default();
                let ignored = (0x2a4..=0x2ad).contains(&c);
                let is_mouse = outs.iter().any(|o| matches!(o, Out::MDown(_) | Out::MUp(_))) || outs.iter().any(|o| matches!(o, Out::Other(s) if s.contains("scroll") || s.contains("move")));
                if is_mouse {
                    st.count("names_mouse(skipped)", 1);
                    continue;
                }
                if c == 0 {
                    continue;
                }
                let expect: Vec<Out> = if ignored || KeyCode::from(o) == KeyCode::No { vec![] } else { vec![Out::Down(want.clone()), Out::Down(want.clone()), Out::Up(want.clone())] };
                if outs != expect {
                    st.violation(viol("name-identity", format!("key name {n:?} (code {c}) written in defsrc and deflayer: pressing it outputs {outs:?}, expected {expect:?}"), &cfg));
                    return;
                }
            }
        }
    }
    st.count("names_checked", checked);
    st.outcome("names-ok");
    st.sample(json!({"family": "key names", "scraped": names.len(), "checked_in_pipeline": checked}));
}

fn job_codes(variant: usize, st: &mut Stats) {
    // variant 0: mapped to itself; 1: transparent on a held second layer; 2: unmapped + process-unmapped-keys
    let mut checked = 0;
    for c in 1..767u16 {
        let Some(o) = OsCode::from_u16(c) else { continue };
        if KeyCode::from(o) == KeyCode::No {
            continue;
        }
        st.evaluations += 1;
        let nm = format!("k{c}");
        let (cfg, pre): (String, Vec<Ev>) = match variant {
            0 => (format!("(deflocalkeys-linux {nm} {c})\n(defcfg)\n(defsrc {nm})\n(deflayer l {nm})\n"), vec![]),
            1 => {
                // holder key: f24 unless that is the key under test
                let (hname, hcode) = if c == 194 { ("f23", 193u16) } else { ("f24", 194u16) };
                (
                    format!("(deflocalkeys-linux {nm} {c})\n(defcfg)\n(defsrc {hname} {nm})\n(deflayer l (layer-while-held m) {nm})\n(deflayer m _ _)\n"),
                    vec![Ev::P(hcode), Ev::T(2)],
                )
            }
            _ => ("(defcfg process-unmapped-keys yes)\n(defsrc f24)\n(deflayer l f24)\n".to_string(), vec![]),
        };
        match press_release(&cfg, &pre, c) {
            Err(e) => {
                if e.starts_with("PANIC") || variant == 2 {
                    st.violation(viol(&format!("codes{variant}-error"), format!("code {c}: {}", e.chars().take(200).collect::<String>()), &cfg));
                    return;
                }
                st.count(&format!("codes{variant}_rejected"), 1);
            }
            Ok(outs) => {
                checked += 1;
                let want = keyname(c).unwrap_or_default();
                let ignored = (0x2a4..=0x2ad).contains(&c);
                let is_mouse = outs.iter().any(|o| matches!(o, Out::MDown(_) | Out::MUp(_) | Out::Other(_)));
                if is_mouse {
                    st.count(&format!("codes{variant}_mouse(skipped)"), 1);
                    continue;
                }
                let expect: Vec<Out> = if ignored { vec![] } else { vec![Out::Down(want.clone()), Out::Down(want.clone()), Out::Up(want.clone())] };
                if outs != expect {
                    st.violation(viol(&format!("code-identity/{}", ["self", "transparent", "unmapped"][variant]), format!("code {c} ({want}): pressing it outputs {outs:?}, expected {expect:?}"), &cfg));
                    return;
                }
            }
        }
    }
    st.count(&format!("codes{variant}_checked"), checked);
    st.outcome(&format!("codes-{}-ok", ["self", "transparent", "unmapped"][variant]));
    let vname = ["mapped to itself", "transparent on held layer", "unmapped + process-unmapped-keys"][variant];
    st.sample(json!({"family": "codes through the pipeline", "variant": vname, "checked": checked}));
}

/// deflocalkeys may give a name that is also built in (a letter, a digit) another code: the name then
/// denotes THAT code wherever it is written (defsrc, action, exception list).
fn job_redefined_names(st: &mut Stats) {
    let pairs: [(&str, u16); 6] = [("a", 16), ("q", 30), ("z", 17), ("1", 40), ("m", 39), ("b", 100)];
    let mut n = 0;
    for (name, code) in pairs {
        let builtin = kanata_parser::keys::str_to_oscode(name).map(|o| o.as_u16());
        // the custom table is process-global: parse a config WITHOUT deflocalkeys first so that the lookup above is the built-in one
        let cfg = format!("(deflocalkeys-linux {name} {code})\n(defcfg)\n(defsrc {name})\n(deflayer l {name})\n");
        st.evaluations += 1;
        n += 1;
        let r = crate::sim::guarded(|| kanata_parser::cfg::new_from_str(&cfg, Default::default()));
        match r {
            Err(p) => {
                st.violation(viol("redefined-name-panic", p, &cfg));
                return;
            }
            Ok(Err(_)) => {
                st.configs_rejected += 1;
                continue;
            }
            Ok(Ok(c)) => {
                st.configs_accepted += 1;
                let got: Vec<u16> = c.mapped_keys.iter().map(|o| o.as_u16()).collect();
                if got != vec![code] {
                    st.violation(viol("redefined-name/mapped-keys", format!("(deflocalkeys-linux {name} {code}) (defsrc {name}): the intercepted set is {got:?}, expected [{code}] (built-in code of the name: {builtin:?})"), &cfg));
                    return;
                }
            }
        }
        // through the pipeline: the redefined code comes out as itself, the name's built-in code is not mapped
        match press_release(&cfg, &[], code) {
            Err(e) => {
                st.violation(viol("redefined-name-error", e.chars().take(200).collect(), &cfg));
                return;
            }
            Ok(outs) => {
                let want = keyname(code).unwrap_or_default();
                let expect = vec![Out::Down(want.clone()), Out::Down(want.clone()), Out::Up(want.clone())];
                if outs != expect {
                    st.violation(viol("redefined-name/identity", format!("(deflocalkeys-linux {name} {code}), defsrc and layer written with {name}: pressing code {code} outputs {outs:?}, expected {expect:?}"), &cfg));
                    return;
                }
            }
        }
    }
    // leave the process-global name table in its default state for whatever runs next in this worker
    let _ = kanata_parser::cfg::new_from_str("(defsrc a)(deflayer l a)", Default::default());
    st.count("redefined_builtin_names", n);
    st.outcome("redefined-names-ok");
}

fn job_mapped_keys(st: &mut Stats) {
    let pool = ["a", "b", "c", "d"];
    let lm = ["e", "f"];
    let ex = ["f", "g"];
    let all_known: Vec<OsCode> = (0..767u16).filter_map(OsCode::from_u16).filter(|o| KeyCode::from(*o) != KeyCode::No).collect();
    let osc = |n: &str| kanata_parser::keys::str_to_oscode(n).unwrap();
    let mut n = 0;
    // exception lists in EVERY order (the list is what the user wrote, not a sorted set): all ordered
    // selections of 2..4 keys from a pool that spans low and high key codes
    {
        let pool = ["ralt", "lctl", "f19", "bspc", "a"];
        let mut lists: Vec<Vec<&str>> = vec![];
        fn rec<'a>(pool: &[&'a str], cur: &mut Vec<&'a str>, out: &mut Vec<Vec<&'a str>>) {
            if cur.len() >= 2 {
                out.push(cur.clone());
            }
            if cur.len() == 4 {
                return;
            }
            for k in pool {
                if !cur.contains(k) {
                    cur.push(k);
                    rec(pool, cur, out);
                    cur.pop();
                }
            }
        }
        rec(&pool, &mut vec![], &mut lists);
        for es in &lists {
            let cfg = format!("(defcfg process-unmapped-keys (all-except {}))\n(defsrc b)\n(deflayer base b)\n", es.join(" "));
            st.evaluations += 1;
            n += 1;
            match crate::sim::guarded(|| kanata_parser::cfg::new_from_str(&cfg, Default::default())) {
                Err(p) => {
                    st.violation(viol("mapped-keys-panic", p, &cfg));
                    return;
                }
                Ok(Err(_)) => st.configs_rejected += 1,
                Ok(Ok(c)) => {
                    st.configs_accepted += 1;
                    let leaked: Vec<&&str> = es.iter().filter(|e| c.mapped_keys.contains(&osc(e))).collect();
                    if !leaked.is_empty() {
                        st.violation(viol("mapped-keys/exception-intercepted", format!("process-unmapped-keys (all-except {}): the listed keys {leaked:?} are intercepted all the same", es.join(" ")), &cfg));
                        return;
                    }
                }
            }
        }
        st.count("exception_lists_in_every_order", lists.len() as u64);
    }
    for dm in 0..16u32 {
        for lmm in 0..4u32 {
            for exm in 0..4u32 {
                for puk in 0..3u32 {
                    // puk: 0 no, 1 yes, 2 all-except
                    if puk != 2 && exm != 0 {
                        continue;
                    }
                    let ds: Vec<&str> = (0..4).filter(|b| dm & (1 << b) != 0).map(|b| pool[b]).collect();
                    let ls: Vec<&str> = (0..2).filter(|b| lmm & (1 << b) != 0).map(|b| lm[b]).collect();
                    let es: Vec<&str> = (0..2).filter(|b| exm & (1 << b) != 0).map(|b| ex[b]).collect();
                    let defcfg = match puk {
                        0 => "process-unmapped-keys no".to_string(),
                        1 => "process-unmapped-keys yes".to_string(),
                        _ => format!("process-unmapped-keys (all-except {})", es.join(" ")),
                    };
                    let mut cfg = format!("(defcfg {defcfg})\n(defsrc {})\n(deflayer base {})\n", ds.join(" "), ds.join(" "));
                    cfg += &format!("(deflayermap (lm) {})\n", ls.iter().map(|k| format!("{k} x")).collect::<Vec<_>>().join(" "));
                    st.evaluations += 1;
                    n += 1;
                    let r = crate::sim::guarded(|| kanata_parser::cfg::new_from_str(&cfg, Default::default()));
                    match r {
                        Err(p) => {
                            st.violation(viol("mapped-keys-panic", p, &cfg));
                            return;
                        }
                        Ok(Err(_)) => {
                            st.configs_rejected += 1;
                            continue;
                        }
                        Ok(Ok(c)) => {
                            st.configs_accepted += 1;
                            let mut want: Vec<OsCode> = ds.iter().map(|k| osc(k)).collect();
                            want.extend(ls.iter().map(|k| osc(k)));
                            if puk >= 1 {
                                for o in &all_known {
                                    if !es.iter().any(|e| osc(e) == *o) {
                                        want.push(*o);
                                    }
                                }
                            }
                            let mut want: Vec<u16> = want.iter().map(|o| o.as_u16()).collect();
                            want.sort();
                            want.dedup();
                            let mut got: Vec<u16> = c.mapped_keys.iter().map(|o| o.as_u16()).collect();
                            got.sort();
                            if got != want {
                                let missing: Vec<&u16> = want.iter().filter(|x| !got.contains(x)).collect();
                                let extra: Vec<&u16> = got.iter().filter(|x| !want.contains(x)).collect();
                                st.violation(viol(
                                    &format!("mapped-keys/{}", if !missing.is_empty() { "missing" } else { "extra" }),
                                    format!("defsrc {ds:?}, deflayermap inputs {ls:?}, {defcfg}: intercepted set is missing codes {missing:?} and has extra codes {extra:?}"),
                                    &cfg,
                                ));
                                return;
                            }
                        }
                    }
                }
            }
        }
    }
    st.outcome("mapped-keys-ok");
    st.sample(json!({"family": "mapped key sets", "configs": n}));
}

fn run_job(_tier: Tier, idx: usize, st: &mut Stats) {
    match idx {
        0 => job_roundtrip(st),
        1 => job_source_enums(st),
        2 => job_names(st),
        3 => job_codes(0, st),
        4 => job_codes(1, st),
        5 => job_codes(2, st),
        6 => job_mapped_keys(st),
        7 => job_redefined_names(st),
        _ => {
            st.outcome("noop");
        }
    }
}

fn replay(_d: &serde_json::Value) -> Vec<Violation> {
    let mut st = Stats::default();
    for i in 0..N_JOBS {
        run_job(Tier::Quick, i, &mut st);
    }
    st.violations
}
