//! Parent/worker orchestration (worker *processes*, never threads: kanata has process-global
//! state), result merging, evidence and replay files, known-findings matching.
use serde_json::{json, Map, Value};
use std::collections::{BTreeMap, BTreeSet};
use std::io::{Read, Write};
use std::process::{Command, Stdio};
use std::time::Instant;

#[derive(Debug, Clone)]
pub struct Violation {
    pub property: String,
    /// Stable identification of *what* fails (used for known-findings matching and dedup).
    pub signature: String,
    /// One-line human description.
    pub what: String,
    /// Everything needed to replay: at least {"kind":..., "cfg":..., "history":...}.
    pub detail: Value,
}

impl Violation {
    pub fn to_json(&self) -> Value {
        json!({"property": self.property, "signature": self.signature, "what": self.what, "detail": self.detail})
    }
    pub fn from_json(v: &Value) -> Option<Violation> {
        Some(Violation {
            property: v.get("property")?.as_str()?.to_string(),
            signature: v.get("signature")?.as_str()?.to_string(),
            what: v.get("what")?.as_str()?.to_string(),
            detail: v.get("detail")?.clone(),
        })
    }
}

/// What one worker (or the merge of all workers) measured.
#[derive(Default)]
pub struct Stats {
    /// complete executions of the real code (fresh instance + one history, or one parse, ...)
    pub evaluations: u64,
    /// distinct tree nodes stepped (prefix-sharing counted once per worker job)
    pub transitions: u64,
    /// distinct state digests seen (when the engine computes them), else distinct (job,prefix) nodes
    pub states: BTreeSet<u64>,
    pub states_count_only: u64,
    /// executions in which a reference prediction was compared with the real code
    pub validated: u64,
    /// histogram of observed outcome classes
    pub outcomes: BTreeMap<String, u64>,
    /// distinct observed output traces (hashes)
    pub distinct_traces: BTreeSet<u64>,
    pub samples: Vec<Value>,
    pub violations: Vec<Violation>,
    pub configs_accepted: u64,
    pub configs_rejected: u64,
    pub jobs_done: u64,
    pub jobs_total: u64,
    pub capped: bool,
    /// free-form counters
    pub counters: BTreeMap<String, u64>,
    pub levels_done: BTreeMap<u32, u64>,
    pub levels_total: BTreeMap<u32, u64>,
}

const MAX_VIOL_PER_WORKER: usize = 200;
const MAX_STATES_SHIPPED: usize = 400_000;

impl Stats {
    pub fn outcome(&mut self, k: &str) {
        *self.outcomes.entry(k.to_string()).or_insert(0) += 1;
    }
    pub fn count(&mut self, k: &str, n: u64) {
        *self.counters.entry(k.to_string()).or_insert(0) += n;
    }
    pub fn sample(&mut self, v: Value) {
        if self.samples.len() < 3 {
            self.samples.push(v);
        }
    }
    pub fn violation(&mut self, v: Violation) {
        if self.violations.len() < MAX_VIOL_PER_WORKER
            && !self.violations.iter().any(|x| x.signature == v.signature)
        {
            self.violations.push(v);
        } else {
            self.count("violations_not_listed(dup signature or overflow)", 1);
        }
    }
    pub fn too_many_violations(&self) -> bool {
        self.violations.len() >= MAX_VIOL_PER_WORKER
    }
    pub fn to_json(&self) -> Value {
        let ship_states = self.states.len() <= MAX_STATES_SHIPPED;
        json!({
            "evaluations": self.evaluations, "transitions": self.transitions,
            "states": if ship_states { self.states.iter().map(|x| json!(x)).collect::<Vec<_>>() } else { vec![] },
            "states_count_only": if ship_states { self.states_count_only } else { self.states_count_only + self.states.len() as u64 },
            "validated": self.validated, "outcomes": self.outcomes,
            "distinct_traces": self.distinct_traces.iter().take(MAX_STATES_SHIPPED).collect::<Vec<_>>(),
            "samples": self.samples,
            "violations": self.violations.iter().map(|v| v.to_json()).collect::<Vec<_>>(),
            "configs_accepted": self.configs_accepted, "configs_rejected": self.configs_rejected,
            "jobs_done": self.jobs_done, "jobs_total": self.jobs_total, "capped": self.capped,
            "counters": self.counters,
            "levels_done": self.levels_done.iter().map(|(k,v)| (k.to_string(), json!(v))).collect::<Map<_,_>>(),
            "levels_total": self.levels_total.iter().map(|(k,v)| (k.to_string(), json!(v))).collect::<Map<_,_>>(),
        })
    }
    pub fn merge_json(&mut self, v: &Value) {
        let u = |k: &str| v.get(k).and_then(|x| x.as_u64()).unwrap_or(0);
        self.evaluations += u("evaluations");
        self.transitions += u("transitions");
        self.states_count_only += u("states_count_only");
        self.validated += u("validated");
        self.configs_accepted += u("configs_accepted");
        self.configs_rejected += u("configs_rejected");
        self.jobs_done += u("jobs_done");
        self.capped |= v.get("capped").and_then(|x| x.as_bool()).unwrap_or(false);
        if let Some(a) = v.get("states").and_then(|x| x.as_array()) {
            for s in a {
                if let Some(n) = s.as_u64() {
                    self.states.insert(n);
                }
            }
        }
        if let Some(a) = v.get("distinct_traces").and_then(|x| x.as_array()) {
            for s in a {
                if let Some(n) = s.as_u64() {
                    self.distinct_traces.insert(n);
                }
            }
        }
        for (name, tgt) in [("outcomes", &mut self.outcomes), ("counters", &mut self.counters)] {
            if let Some(o) = v.get(name).and_then(|x| x.as_object()) {
                for (k, n) in o {
                    *tgt.entry(k.clone()).or_insert(0) += n.as_u64().unwrap_or(0);
                }
            }
        }
        if let Some(o) = v.get("levels_done").and_then(|x| x.as_object()) {
            for (k, n) in o {
                *self.levels_done.entry(k.parse().unwrap_or(0)).or_insert(0) += n.as_u64().unwrap_or(0);
            }
        }
        if let Some(a) = v.get("samples").and_then(|x| x.as_array()) {
            for s in a {
                if self.samples.len() < 4 {
                    self.samples.push(s.clone());
                }
            }
        }
        if let Some(a) = v.get("violations").and_then(|x| x.as_array()) {
            for x in a {
                if let Some(vi) = Violation::from_json(x) {
                    if !self.violations.iter().any(|y| y.signature == vi.signature) {
                        self.violations.push(vi);
                    }
                }
            }
        }
    }
}

/// A property check, as seen by the orchestration.
pub struct PropDef {
    pub id: &'static str,
    /// evidence level category
    pub level: &'static str,
    /// number of jobs in the tier (deterministic)
    pub n_jobs: fn(tier: Tier) -> usize,
    /// iterative-deepening level of a job (jobs are processed in index order; lower levels first)
    pub job_level: fn(tier: Tier, idx: usize) -> u32,
    /// run one job
    pub run_job: fn(tier: Tier, idx: usize, st: &mut Stats),
    /// re-execute a stored violation detail; returns the violations it reproduces
    pub replay: fn(detail: &Value) -> Vec<Violation>,
    pub rule: &'static str,
    pub assumptions: &'static [&'static str],
    /// levels up to (and including) this one MUST complete, else machinery failure (exit 2)
    pub required_level: fn(tier: Tier) -> u32,
    /// minimum number of distinct outcome classes expected (vacuity guard)
    pub min_outcomes: usize,
}

#[derive(Debug, Clone, Copy, PartialEq, Eq)]
pub enum Tier {
    Quick,
    Thorough,
}
impl Tier {
    pub fn name(&self) -> &'static str {
        match self {
            Tier::Quick => "quick",
            Tier::Thorough => "thorough",
        }
    }
    pub fn parse(s: &str) -> Tier {
        if s == "thorough" {
            Tier::Thorough
        } else {
            Tier::Quick
        }
    }
}

static ANNOUNCE: std::sync::atomic::AtomicBool = std::sync::atomic::AtomicBool::new(false);
/// Number of executions started by this worker; a heartbeat thread reports it once per second so
/// that the parent can tell a hung execution (counter frozen) from a long job.
static PROGRESS: std::sync::atomic::AtomicU64 = std::sync::atomic::AtomicU64::new(0);

/// Call from loops that run real code without going through `announce` (pure evaluations).
pub fn progress() {
    PROGRESS.fetch_add(1, std::sync::atomic::Ordering::Relaxed);
}

/// In crash-finding mode every execution is announced on stdout *before* it runs, so that the
/// parent can attribute an abort (stack overflow, allocation failure) to one (config, history).
pub fn announce(cfg: &str, hist: &[crate::sim::Ev]) {
    PROGRESS.fetch_add(1, std::sync::atomic::Ordering::Relaxed);
    if ANNOUNCE.load(std::sync::atomic::Ordering::Relaxed) {
        let stdout = std::io::stdout();
        let mut l = stdout.lock();
        let _ = writeln!(l, "KMC-EXEC {}", json!({"cfg": cfg, "history": crate::sim::hist_to_string(hist)}));
        let _ = l.flush();
    }
}
pub fn announce_value(v: &Value) {
    PROGRESS.fetch_add(1, std::sync::atomic::Ordering::Relaxed);
    if ANNOUNCE.load(std::sync::atomic::Ordering::Relaxed) {
        let stdout = std::io::stdout();
        let mut l = stdout.lock();
        let _ = writeln!(l, "KMC-EXEC {}", v);
        let _ = l.flush();
    }
}

/// Worker protocol on stdout: "KMC-JOB <idx>" before a job, "KMC-PART <json>" after it,
/// "KMC-DONE <capped>" at the end. A worker that dies leaves a KMC-JOB without KMC-PART.
pub fn worker_main(p: &PropDef, tier: Tier, shard: usize, nshards: usize, deadline_s: f64, start_after: i64, only: Option<usize>) {
    crate::sim::install_panic_hook();
    let start = Instant::now();
    let n = (p.n_jobs)(tier);
    let trace = std::env::var("KMC_TRACE").is_ok();
    let mut capped = false;
    let mut nviol = 0usize;
    let emit = |s: String| {
        let stdout = std::io::stdout();
        let mut l = stdout.lock();
        let _ = writeln!(l, "{}", s);
        let _ = l.flush();
    };
    if let Some(idx) = only {
        ANNOUNCE.store(true, std::sync::atomic::Ordering::Relaxed);
        let mut st = Stats::default();
        emit(format!("KMC-JOB {idx}"));
        (p.run_job)(tier, idx, &mut st);
        emit("KMC-DONE false".to_string());
        return;
    }
    std::thread::spawn(|| loop {
        std::thread::sleep(std::time::Duration::from_millis(1000));
        let stdout = std::io::stdout();
        let mut l = stdout.lock();
        let _ = writeln!(l, "KMC-HB {}", PROGRESS.load(std::sync::atomic::Ordering::Relaxed));
        let _ = l.flush();
    });
    let known = load_known();
    let mut known_seen: BTreeMap<String, u32> = BTreeMap::new();
    let mut idx = shard;
    while idx < n {
        if (idx as i64) <= start_after {
            idx += nshards;
            continue;
        }
        if start.elapsed().as_secs_f64() > deadline_s || nviol >= MAX_VIOL_PER_WORKER {
            capped = true;
            break;
        }
        let mut st = Stats::default();
        emit(format!("KMC-JOB {idx}"));
        let t0 = Instant::now();
        (p.run_job)(tier, idx, &mut st);
        if trace {
            eprintln!("job {idx} took {:.2}s", t0.elapsed().as_secs_f64());
        }
        st.jobs_done = 1;
        // Violations that match a listed known finding do not count towards the per-worker cap (a
        // thorough tier hits the same finding thousands of times) and only the first few per entry
        // are shipped; everything else is shipped and counted.
        {
            let mut kept = vec![];
            for v in std::mem::take(&mut st.violations) {
                match known_match(&known, &v) {
                    Some(k) => {
                        let ks = k.get("signature").and_then(|x| x.as_str()).unwrap_or("").to_string();
                        let c = known_seen.entry(ks).or_insert(0u32);
                        *c += 1;
                        if *c <= 3 {
                            kept.push(v);
                        } else {
                            *st.counters.entry("known_finding_hits_not_shipped".into()).or_insert(0) += 1;
                        }
                    }
                    None => {
                        nviol += 1;
                        kept.push(v);
                    }
                }
            }
            st.violations = kept;
        }
        *st.levels_done.entry((p.job_level)(tier, idx)).or_insert(0) += 1;
        emit(format!("KMC-PART {}", serde_json::to_string(&st.to_json()).unwrap()));
        idx += nshards;
    }
    emit(format!("KMC-DONE {}", capped));
}


/// Outcome of supervising one child process whose stdout is read line by line.
struct Supervised {
    lines: Vec<String>,
    status: Option<std::process::ExitStatus>,
    /// killed because it made no progress for `stall_s` seconds
    stalled: bool,
    stderr: String,
}

/// Runs the child to completion, collecting stdout lines (heartbeats dropped). "Progress" is any
/// line other than a heartbeat, or a heartbeat whose counter changed. A child without progress for
/// `stall_s` seconds is killed and reported as stalled (a hung execution).
fn supervise(mut c: std::process::Child, stall_s: f64) -> Supervised {
    use std::io::BufRead;
    let so = c.stdout.take();
    let se = c.stderr.take();
    let (ltx, lrx) = std::sync::mpsc::channel::<String>();
    let rd = std::thread::spawn(move || {
        if let Some(so) = so {
            let br = std::io::BufReader::new(so);
            for l in br.lines() {
                match l {
                    Ok(l) => {
                        if ltx.send(l).is_err() {
                            break;
                        }
                    }
                    Err(_) => break,
                }
            }
        }
    });
    let erd = std::thread::spawn(move || {
        let mut s = String::new();
        if let Some(mut se) = se {
            let _ = se.read_to_string(&mut s);
        }
        s
    });
    let mut lines = vec![];
    let mut last_progress = Instant::now();
    let mut last_hb: Option<String> = None;
    let mut stalled = false;
    loop {
        match lrx.recv_timeout(std::time::Duration::from_millis(500)) {
            Ok(l) => {
                if let Some(hb) = l.strip_prefix("KMC-HB ") {
                    if last_hb.as_deref() != Some(hb) {
                        last_progress = Instant::now();
                        last_hb = Some(hb.to_string());
                    }
                } else {
                    last_progress = Instant::now();
                    lines.push(l);
                }
            }
            Err(std::sync::mpsc::RecvTimeoutError::Timeout) => {}
            Err(std::sync::mpsc::RecvTimeoutError::Disconnected) => break,
        }
        if last_progress.elapsed().as_secs_f64() > stall_s {
            let _ = c.kill();
            stalled = true;
            break;
        }
    }
    let status = c.wait().ok();
    let _ = rd.join();
    let stderr = erd.join().unwrap_or_default();
    // drain what the reader had already queued
    while let Ok(l) = lrx.try_recv() {
        if !l.starts_with("KMC-HB ") {
            lines.push(l);
        }
    }
    Supervised { lines, status, stalled, stderr }
}

fn load_known() -> Vec<Value> {
    let p = "/verif/known_findings.json";
    match std::fs::read_to_string(p) {
        Ok(s) => serde_json::from_str::<Value>(&s)
            .ok()
            .and_then(|v| v.get("findings").and_then(|f| f.as_array()).cloned())
            .unwrap_or_default(),
        Err(_) => vec![],
    }
}

/// A violation is a known finding iff property matches, the signature matches (exact, or prefix
/// when the listed signature ends with '*'), and every `requires` substring occurs in the
/// violation's config text.
pub fn known_match<'a>(known: &'a [Value], v: &Violation) -> Option<&'a Value> {
    known.iter().find(|k| {
        let prop = k.get("property").and_then(|x| x.as_str()).unwrap_or("");
        let sig = k.get("signature").and_then(|x| x.as_str()).unwrap_or("\u{0}");
        let sig_ok = glob_match(sig, &v.signature);
        let cfg = v.detail.get("cfg").and_then(|x| x.as_str()).unwrap_or("");
        let req_ok = k
            .get("requires")
            .and_then(|x| x.as_array())
            .map(|a| a.iter().all(|s| s.as_str().map(|s| cfg.contains(s)).unwrap_or(true)))
            .unwrap_or(true);
        prop == v.property && sig_ok && req_ok
    })
}

/// '*' matches any (possibly empty) substring; everything else is literal.
pub fn glob_match(pat: &str, text: &str) -> bool {
    let parts: Vec<&str> = pat.split('*').collect();
    if parts.len() == 1 {
        return pat == text;
    }
    let mut pos = 0usize;
    for (i, part) in parts.iter().enumerate() {
        if i == 0 {
            if !text.starts_with(part) {
                return false;
            }
            pos = part.len();
        } else if i == parts.len() - 1 {
            return text.len() >= pos + part.len() && text[pos..].ends_with(part);
        } else {
            match text[pos..].find(part) {
                Some(k) => pos += k + part.len(),
                None => return false,
            }
        }
    }
    true
}

pub fn parent_main(p: &PropDef, tier: Tier, seed: u64) -> i32 {
    let start = Instant::now();
    let n = (p.n_jobs)(tier);
    let nworkers: usize = std::env::var("KMC_WORKERS")
        .ok()
        .and_then(|s| s.parse().ok())
        .unwrap_or_else(|| std::thread::available_parallelism().map(|x| x.get()).unwrap_or(8))
        .max(1)
        .min(n.max(1));
    let deadline_s: f64 = std::env::var("KMC_DEADLINE_S")
        .ok()
        .and_then(|s| s.parse().ok())
        .unwrap_or(match tier {
            Tier::Quick => 240.0,
            Tier::Thorough => 1500.0,
        });
    let exe = std::env::current_exe().expect("current exe");
    let mut total = Stats::default();
    total.jobs_total = n as u64;
    for i in 0..n {
        *total.levels_total.entry((p.job_level)(tier, i)).or_insert(0) += 1;
    }
    let mut machinery_fail: Vec<String> = vec![];
    // VERIF_SEED only rotates which worker gets which shard; no check makes a random choice.
    // Each shard is (re)started after a fatal job until it reports KMC-DONE.
    let spawn = |shard: usize, start_after: i64, dl: f64| {
        Command::new(&exe)
            .args(["worker", p.id, tier.name(), &shard.to_string(), &nworkers.to_string(), &dl.to_string(), &start_after.to_string()])
            .stdin(Stdio::null())
            .stdout(Stdio::piped())
            .stderr(Stdio::null())
            .spawn()
            .expect("spawn worker")
    };
    // no progress (executions started) for this long = a hung execution; the worker is killed and the job
    // is re-run alone to attribute the hang to one execution
    let stall_s: f64 = std::env::var("KMC_STALL_S").ok().and_then(|s| s.parse().ok()).unwrap_or(match tier {
        Tier::Quick => 60.0,
        Tier::Thorough => 180.0,
    });
    let fatal_jobs = std::sync::Mutex::new(Vec::<usize>::new());
    let results = std::sync::Mutex::new(Vec::<String>::new());
    let fails = std::sync::Mutex::new(Vec::<String>::new());
    std::thread::scope(|sc| {
        for w in 0..nworkers {
            let shard = (w + seed as usize) % nworkers;
            let (fatal_jobs, results, fails, spawn) = (&fatal_jobs, &results, &fails, &spawn);
            sc.spawn(move || {
                let mut start_after: i64 = -1;
                let mut restarts = 0;
                loop {
                    let remaining = deadline_s - start.elapsed().as_secs_f64();
                    let c = spawn(shard, start_after, remaining.max(1.0));
                    let sup = supervise(c, stall_s);
                    let status = sup.status;
                    let out = sup.lines.join("\n");
                    if std::env::var("KMC_TRACE").is_ok() {
                        eprintln!("[{:.1}s] shard {shard} worker exited {status:?} stalled={}", start.elapsed().as_secs_f64(), sup.stalled);
                    }
                    let mut last_job: Option<usize> = None;
                    let mut done = false;
                    let mut parts = vec![];
                    for l in out.lines() {
                        if let Some(r) = l.strip_prefix("KMC-JOB ") {
                            last_job = r.trim().parse().ok();
                        } else if let Some(r) = l.strip_prefix("KMC-PART ") {
                            parts.push(r.to_string());
                            last_job = None;
                        } else if let Some(r) = l.strip_prefix("KMC-DONE ") {
                            done = true;
                            if r.trim() == "true" {
                                parts.push("{\"capped\":true}".to_string());
                            }
                        }
                    }
                    results.lock().unwrap().extend(parts);
                    if done {
                        break;
                    }
                    match last_job {
                        Some(j) => {
                            fatal_jobs.lock().unwrap().push(j);
                            start_after = j as i64;
                            restarts += 1;
                            if restarts > 50 {
                                fails.lock().unwrap().push(format!("shard {shard}: more than 50 fatal jobs, giving up"));
                                break;
                            }
                        }
                        None => {
                            fails.lock().unwrap().push(format!("worker shard {shard} died outside a job (status {status:?})"));
                            break;
                        }
                    }
                }
            });
        }
    });
    for r in results.into_inner().unwrap() {
        match serde_json::from_str::<Value>(&r) {
            Ok(v) => total.merge_json(&v),
            Err(e) => machinery_fail.push(format!("bad result json: {e}")),
        }
    }
    machinery_fail.extend(fails.into_inner().unwrap());
    // Attribute each fatal job to one execution: rerun it alone with every execution announced.
    let mut fatal = fatal_jobs.into_inner().unwrap();
    fatal.sort();
    for j in fatal {
        if std::env::var("KMC_TRACE").is_ok() {
            eprintln!("[{:.1}s] crashfind job {j}", start.elapsed().as_secs_f64());
        }
        let child = Command::new(&exe)
            .args(["worker", p.id, tier.name(), "0", "1", "600", "-1", &j.to_string()])
            .stdin(Stdio::null())
            .stdout(Stdio::piped())
            .stderr(Stdio::piped())
            .spawn();
        match child {
            Ok(child) => {
                // in this mode every execution announces itself, so silence = one execution hanging
                let sup = supervise(child, 45.0);
                let se = sup.stderr.clone();
                let done = sup.lines.iter().any(|l| l.starts_with("KMC-DONE"));
                let last = sup.lines.iter().rev().find(|l| l.starts_with("KMC-EXEC "));
                if done {
                    machinery_fail.push(format!("job {j} killed its worker but ran to completion alone (not reproducible)"));
                } else if let Some(l) = last {
                    let d: Value = serde_json::from_str(&l["KMC-EXEC ".len()..]).unwrap_or(json!({}));
                    let why = if sup.stalled { "hang" } else if se.contains("overflowed its stack") { "stack overflow" } else if se.contains("memory allocation") { "allocation failure" } else { "abort" };
                    let cfg = d.get("cfg").and_then(|x| x.as_str()).unwrap_or("");
                    let mut detail = d.clone();
                    detail.as_object_mut().map(|m| { m.insert("kind".into(), json!(if sup.stalled { "hang" } else { "abort" })); });
                    total.violations.push(Violation {
                        property: p.id.to_string(),
                        signature: format!("{}::{}::{:016x}", if sup.stalled { "hang" } else { "abort" }, why, crate::sim::hash_str(cfg)),
                        what: if sup.stalled {
                            format!("an execution did not return within 45 s (job {j}); last announced execution: {}", d.get("history").and_then(|x| x.as_str()).unwrap_or("?"))
                        } else {
                            format!("process death ({why}, status {:?}) in job {j}; last announced execution: {}", sup.status, d.get("history").and_then(|x| x.as_str()).unwrap_or("?"))
                        },
                        detail,
                    });
                    // the fatal job counts as done for level accounting: it produced a verdict
                    total.jobs_done += 1;
                    *total.levels_done.entry((p.job_level)(tier, j)).or_insert(0) += 1;
                } else {
                    machinery_fail.push(format!("job {j} died without announcing an execution (status {:?}, stalled {})", sup.status, sup.stalled));
                }
            }
            Err(e) => machinery_fail.push(format!("could not rerun fatal job {j}: {e}")),
        }
    }
    // Iterative deepening: which levels completed entirely?
    let mut completed_level: i64 = -1;
    for (lvl, tot) in &total.levels_total {
        if total.levels_done.get(lvl).copied().unwrap_or(0) == *tot {
            completed_level = *lvl as i64;
        } else {
            break;
        }
    }
    let required = (p.required_level)(tier) as i64;
    let known = load_known();
    let mut new_viol = vec![];
    let mut known_hits: Vec<(String, String)> = vec![];
    for v in &total.violations {
        match known_match(&known, v) {
            Some(k) => {
                let what = k.get("what").and_then(|x| x.as_str()).unwrap_or(&v.what).to_string();
                let ksig = k.get("signature").and_then(|x| x.as_str()).unwrap_or("").to_string();
                // one line per LISTED finding, however many executions hit it
                if !known_hits.iter().any(|(s, _)| *s == ksig) {
                    known_hits.push((ksig, what));
                }
            }
            None => new_viol.push(v.clone()),
        }
    }
    let out_dir = std::env::var("KMC_OUT_DIR").unwrap_or_else(|_| "/verif".to_string());
    let _ = std::fs::create_dir_all(format!("{out_dir}/replays"));
    let mut exit = 0;
    for (sig, what) in &known_hits {
        println!("KNOWN-FINDING: property={} {} [{}]", p.id, what, sig);
    }
    let mut reported = 0;
    for v in &new_viol {
        let path = format!("{out_dir}/replays/{}-{:016x}.json", p.id, crate::sim::hash_str(&v.signature));
        let _ = std::fs::write(&path, serde_json::to_string_pretty(&v.to_json()).unwrap());
        // Replay twice in fresh processes before believing it (first few only).
        if reported < 3 {
            let mut ok = 0;
            for _ in 0..2 {
                let child = Command::new(&exe).args(["replay", &path]).stdin(Stdio::null()).stdout(Stdio::piped()).stderr(Stdio::null()).spawn();
                if let Ok(child) = child {
                    let sup = supervise(child, 60.0);
                    let reproduced = sup.lines.iter().any(|l| {
                        l.strip_prefix("REPRODUCED ")
                            .and_then(|r| r.split_once("signature="))
                            .map(|(_, sig)| v.signature == sig || v.signature.ends_with(&format!("::{sig}")))
                            .unwrap_or(false)
                    });
                    let died_by_signal = sup.status.map(|s| !s.success() && s.code().is_none()).unwrap_or(false);
                    if reproduced {
                        ok += 1;
                    } else if v.signature.starts_with("abort::") && died_by_signal && !sup.stalled {
                        // died by signal again
                        ok += 1;
                    } else if v.signature.starts_with("hang::") && (sup.stalled || sup.lines.iter().any(|l| l.starts_with("REPRODUCED-HANG"))) {
                        ok += 1;
                    }
                }
            }
            if ok != 2 {
                machinery_fail.push(format!("violation {} did not reproduce identically on 2 replays ({ok}/2)", v.signature));
                continue;
            }
        }
        println!("VIOLATION property={} replay={}", p.id, path);
        println!("  what: {}", v.what);
        reported += 1;
        exit = 1;
    }
    if completed_level < required {
        machinery_fail.push(format!(
            "required bound (level {required}) not completed: completed level {completed_level}, jobs {}/{} (cap hit: {})",
            total.jobs_done, total.jobs_total, total.capped
        ));
    }
    if exit == 0 && total.outcomes.len() < p.min_outcomes {
        machinery_fail.push(format!(
            "vacuity guard: only {} distinct outcome classes observed (< {})",
            total.outcomes.len(),
            p.min_outcomes
        ));
    }
    let wall = start.elapsed().as_secs_f64();
    let states = (total.states.len() as u64 + total.states_count_only).max(1);
    let distinct = (total.distinct_traces.len() as u64).max(total.outcomes.len() as u64);
    let mut coverage = json!({
        "evaluations": total.evaluations,
        "distinct_nontrivial": distinct,
        "rule": p.rule,
        "samples": total.samples,
        "exhaustive": !total.capped && completed_level >= required,
        "completed_level": completed_level,
        "required_level": required,
        "cap_hit_beyond_required_level": total.capped,
        "jobs_done": total.jobs_done,
        "jobs_total": total.jobs_total,
        "outcome_histogram": total.outcomes,
        "distinct_output_traces": total.distinct_traces.len(),
        "configs_accepted": total.configs_accepted,
        "configs_rejected": total.configs_rejected,
        "counters": total.counters,
        "known_findings_hit": known_hits.iter().map(|(s, _)| s.clone()).collect::<Vec<_>>(),
        "workers": nworkers,
    });
    let cm = coverage.as_object_mut().unwrap();
    match p.level {
        "model_checking" => {
            cm.insert("states".into(), json!(states));
            cm.insert("transitions".into(), json!(total.transitions.max(1)));
            cm.insert("traces_validated_against_impl".into(), json!(total.validated));
        }
        "translation_validation" => {
            cm.insert("programs".into(), json!(total.configs_accepted.max(1)));
            cm.insert("disagreements_checked".into(), json!(total.validated));
            cm.insert("states".into(), json!(states));
            cm.insert("transitions".into(), json!(total.transitions));
        }
        _ => {
            cm.insert("states".into(), json!(states));
            cm.insert("transitions".into(), json!(total.transitions));
        }
    }
    if total.samples.is_empty() {
        cm.insert("samples".into(), json!(["<no sample recorded>"]));
    }
    let ev = json!({
        "property_id": p.id,
        "tier": tier.name(),
        "seed": seed,
        "level": p.level,
        "coverage": coverage,
        "assumptions": p.assumptions,
        "wall_s": wall,
        "violations": new_viol.len(),
        "machinery_failures": machinery_fail,
    });
    let _ = std::fs::create_dir_all(format!("{out_dir}/evidence"));
    let _ = std::fs::write(
        format!("{out_dir}/evidence/{}.json", p.id),
        serde_json::to_string_pretty(&ev).unwrap() + "\n",
    );
    println!(
        "{} {}: jobs {}/{} evaluations={} states={} transitions={} outcomes={} violations={} known={} level={}/{} wall={:.1}s",
        p.id, tier.name(), total.jobs_done, total.jobs_total, total.evaluations, states, total.transitions,
        total.outcomes.len(), new_viol.len(), known_hits.len(), completed_level, required, wall
    );
    if exit == 1 {
        return 1;
    }
    if !machinery_fail.is_empty() {
        for m in &machinery_fail {
            println!("MACHINERY-FAILURE: {}", m);
        }
        return 2;
    }
    0
}

pub fn replay_main(props: &[PropDef], path: &str) -> i32 {
    crate::sim::install_panic_hook();
    let s = match std::fs::read_to_string(path) {
        Ok(s) => s,
        Err(e) => {
            println!("cannot read {path}: {e}");
            return 2;
        }
    };
    let v: Value = match serde_json::from_str(&s) {
        Ok(v) => v,
        Err(e) => {
            println!("bad json {path}: {e}");
            return 2;
        }
    };
    let Some(viol) = Violation::from_json(&v) else {
        println!("not a violation file");
        return 2;
    };
    let Some(p) = props.iter().find(|p| p.id == viol.property) else {
        println!("unknown property {}", viol.property);
        return 2;
    };
    if viol.detail.get("kind").and_then(|x| x.as_str()) == Some("hang") {
        // the execution is expected not to return: report and exit after 20 s
        let (prop, sig) = (viol.property.clone(), viol.signature.clone());
        std::thread::spawn(move || {
            std::thread::sleep(std::time::Duration::from_secs(20));
            println!("REPRODUCED-HANG property={prop} signature={sig}");
            println!("  what: the execution is still running after 20 s");
            std::process::exit(1);
        });
    }
    let got = (p.replay)(&viol.detail);
    if got.is_empty() {
        println!("NOT-REPRODUCED property={} signature={}", viol.property, viol.signature);
        return 0;
    }
    for g in &got {
        println!("REPRODUCED property={} signature={}", g.property, g.signature);
        println!("  what: {}", g.what);
        println!("  detail: {}", serde_json::to_string(&g.detail).unwrap());
    }
    1
}
