//! kmc — bounded-exhaustive model checking of the real jtroo/kanata state machine.
mod cfggen;
mod explore;
mod par;
mod props;
mod sim;

use par::Tier;

fn main() {
    // anyhow/miette would capture a backtrace per parser error otherwise (slow, noisy).
    std::env::set_var("RUST_BACKTRACE", "0");
    std::env::set_var("RUST_LIB_BACKTRACE", "0");
    let args: Vec<String> = std::env::args().collect();
    let props = props::all();
    let usage = || {
        eprintln!("usage: kmc run <Cxx> [quick|thorough] | kmc worker <Cxx> <tier> <shard> <nshards> <deadline_s> | kmc replay <file> | kmc sim <cfgfile> <history...>");
        std::process::exit(2);
    };
    if args.len() < 2 {
        usage();
    }
    match args[1].as_str() {
        "run" => {
            if args.len() < 3 {
                usage();
            }
            let tier = Tier::parse(
                args.get(3)
                    .cloned()
                    .or_else(|| std::env::var("VERIF_TIER").ok())
                    .unwrap_or_else(|| "quick".into())
                    .as_str(),
            );
            let seed: u64 = std::env::var("VERIF_SEED").ok().and_then(|s| s.parse().ok()).unwrap_or(0);
            let Some(p) = props.iter().find(|p| p.id == args[2]) else {
                eprintln!("unknown property {}", args[2]);
                std::process::exit(2);
            };
            std::process::exit(par::parent_main(p, tier, seed));
        }
        "worker" => {
            let p = props.iter().find(|p| p.id == args[2]).expect("prop");
            let tier = Tier::parse(&args[3]);
            let shard: usize = args[4].parse().unwrap();
            let n: usize = args[5].parse().unwrap();
            let dl: f64 = args[6].parse().unwrap();
            let start_after: i64 = args.get(7).and_then(|s| s.parse().ok()).unwrap_or(-1);
            let only: Option<usize> = args.get(8).and_then(|s| s.parse().ok());
            par::worker_main(p, tier, shard, n, dl, start_after, only);
        }
        "replay" => {
            std::process::exit(par::replay_main(&props, &args[2]));
        }
        "sim" => {
            // kmc sim <cfgfile> d:a t:5 u:a ...  — prints the parsed output trace
            sim::install_panic_hook();
            let cfg = std::fs::read_to_string(&args[2]).expect("cfg file");
            // optional: --file=<name>:<path> arguments provide includable files
            let mut files = sim::Files::default();
            let mut rest = vec![];
            for a in &args[3..] {
                if let Some(f) = a.strip_prefix("--file=") {
                    if let Some((n, p)) = f.split_once(':') {
                        files.insert(n.to_string(), std::fs::read_to_string(p).expect("included file"));
                    }
                } else {
                    rest.push(a.clone());
                }
            }
            let h = sim::hist_parse(&rest.join(" ")).expect("history");
            let run = || -> Result<(sim::Sim, sim::Trace), String> {
                let mut s = sim::Sim::new_with_files(&cfg, files.clone())?;
                s.run(&h)?;
                let t = s.trace();
                Ok((s, t))
            };
            match run() {
                Ok((s, t)) => {
                    println!("{}", sim::trace_to_string(&t));
                    if std::env::var("KMC_DIGEST").is_ok() {
                        println!("{}", s.digest_string());
                    }
                }
                Err(e) => println!("FAILED: {e}"),
            }
        }
        "list" => {
            for p in &props {
                println!("{} quick_jobs={} thorough_jobs={}", p.id, (p.n_jobs)(Tier::Quick), (p.n_jobs)(Tier::Thorough));
            }
        }
        _ => usage(),
    }
}
