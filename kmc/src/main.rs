//! kmc — bounded-exhaustive model checking of the real jtroo/kanata state machine.
mod cfggen;
mod explore;
mod par;
mod props;
mod sim;

use par::Tier;

fn main() {
    // anyhow/miette would capture a backtrace per parser error otherwise (slow, noisy).
    std::env::set_var("RUST_BACKTRACE", "0");
    std::env::set_var("RUST_LIB_BACKTRACE", "0");
    let args: Vec<String> = std::env::args().collect();
    let props = props::all();
    let usage = || {
        eprintln!("usage: kmc run <Cxx> [quick|thorough] | kmc worker <Cxx> <tier> <shard> <nshards> <deadline_s> | kmc replay <file> | kmc sim <cfgfile> <history...>");
        std::process::exit(2);
    };
    if args.len() < 2 {
        usage();
    }
    match args[1].as_str() {
        "run" => {
            if args.len() < 3 {
                usage();
            }
            let tier = Tier::parse(
                args.get(3)
                    .cloned()
                    .or_else(|| std::env::var("VERIF_TIER").ok())
                    .unwrap_or_else(|| "quick".into())
                    .as_str(),
            );
            let seed: u64 = std::env::var("VERIF_SEED").ok().and_then(|s| s.parse().ok()).unwrap_or(0);
            let Some(p) = props.iter().find(|p| p.id == args[2]) else {
                eprintln!("unknown property {}", args[2]);
                std::process::exit(2);
            };
            std::process::exit(par::parent_main(p, tier, seed));
        }
        "worker" => {
            let p = props.iter().find(|p| p.id == args[2]).expect("prop");
            let tier = Tier::parse(&args[3]);
            let shard: usize = args[4].parse().unwrap();
            let n: usize = args[5].parse().unwrap();
            let dl: f64 = args[6].parse().unwrap();
            let start_after: i64 = args.get(7).and_then(|s| s.parse().ok()).unwrap_or(-1);
            let only: Option<usize> = args.get(8).and_then(|s| s.parse().ok());
            par::worker_main(p, tier, shard, n, dl, start_after, only);
        }
        "replay" => {
            std::process::exit(par::replay_main(&props, &args[2]));
        }
        "sim" => {
            // kmc sim <cfgfile> d:a t:5 u:a ...  — prints the parsed output trace
            sim::install_panic_hook();
            let cfg = std::fs::read_to_string(&args[2]).expect("cfg file");
            let h = sim::hist_parse(&args[3..].join(" ")).expect("history");
            match sim::run_fresh(&cfg, &h) {
                Ok((s, t)) => {
                    println!("{}", sim::trace_to_string(&t));
                    if std::env::var("KMC_DIGEST").is_ok() {
                        println!("{}", s.digest_string());
                    }
                }
                Err(e) => println!("FAILED: {e}"),
            }
        }
        "list" => {
            for p in &props {
                println!("{} quick_jobs={} thorough_jobs={}", p.id, (p.n_jobs)(Tier::Quick), (p.n_jobs)(Tier::Thorough));
            }
        }
        _ => usage(),
    }
}
