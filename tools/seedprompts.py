#!/usr/bin/env python3
"""seedprompts.py <suffix> [ids...]: writes /tmp/seedprompts/<id><suffix>.txt, the complete brief for a
fresh sub-agent that produces one seeded property-breaking change in its own scratch worktree
/tmp/seed_<id><suffix> (deliverables in /tmp/seed_<id><suffix>_out). The brief contains ONLY the property
text and the worktree path -- nothing from /verif. For a second round the one-line site of the
first-round change is given so that a different mechanism is chosen."""
import json, os, sys
suffix = sys.argv[1] if len(sys.argv) > 1 else ''
only = set(sys.argv[2:])
T = '''You are helping test a verification framework by producing ONE realistic regression ("seeded bug") in the open-source project jtroo/kanata (a Rust keyboard remapper: s-expression config parser feeding a tick-driven keyberon layout state machine).

You have your own scratch git worktree of the project at {wt} . Work ONLY inside {wt} and write your deliverables to {out}/ . Do NOT read, list or touch /verif or /repo (or any other directory under /tmp). The sandbox has no network; use `--offline` with cargo. Use `CARGO_TARGET_DIR={wt}/target` (the default) so build output stays in your worktree.

The property that your change must break:

  id: {id}
  title: {title}
  statement: {statement}
  quantified over: {quant}
  code anchors (files where the behaviour lives): {files}
{avoid}
Task: make a small change to the project's source code (NOT to its tests) such that
  1. the project still compiles, and the existing test suite still passes completely:
       cd {wt} && cargo nextest run --workspace --no-fail-fast --offline --test-threads 8
     (fallback if nextest is unavailable: cargo test --workspace --no-fail-fast --offline). Expect 280 tests passing. Run it and confirm.
  2. the property above is violated by the changed code -- but only in circumstances that need something SPECIFIC to manifest: a particular multi-step sequence of key events, a particular timing/gap at a boundary, an unusual (but accepted) configuration or input, a capacity limit being crossed, or two cooperating sites that each look fine alone. Do NOT make a change that ordinary use (any key press) would expose at once, and do not make a change the existing tests catch. It should look like a plausible mistake a maintainer could make in a refactor or optimisation (off-by-one in a timeout comparison, wrong ordering, forgotten state reset, a dropped conjunct, wrong index, etc.).
  3. you write a demonstration: a new Rust test (e.g. added to src/tests/sim_tests/ or keyberon/parser tests, using the project's existing simulation helpers such as `simulate(cfg, "d:a t:10 u:a t:10")`) or a small program, that FAILS with your change and PASSES on the unchanged code. Verify both directions yourself. Do NOT use `git stash` (the stash is shared with other people's worktrees of the same repository and they would pop your entry); switch with `git diff > file`, `git checkout -- <file>`, `git apply file`.

Deliverables in {out}/ :
  - patch.diff : `git diff` of ONLY the source change (not the demonstration test), applicable with `git apply` at the repository root of commit HEAD.
  - demo.diff : `git diff` adding ONLY the demonstration test (applicable on top of HEAD independently of patch.diff).
  - demo_cmd.txt : the exact command that runs the demonstration. Note: the sim tests in src/tests need workspace feature unification; `cargo test --workspace --offline <test_name>` works; the last word of the command must be the test name (a substring matching only your demo tests).
  - NOTES.md : what the change is, why it breaks the property, precisely what is needed to manifest it (config + event sequence + timing), and the outputs you observed (suite pass count with the change; demo failing with change and passing without).

Keep your final answer short: the one-paragraph summary of the change and what it needs to manifest.
'''
os.makedirs('/tmp/seedprompts', exist_ok=True)
for l in open('/verif/properties.jsonl'):
    p = json.loads(l)
    id = p['id']
    if only and id not in only:
        continue
    avoid = ''
    if suffix:
        site = ''
        prev_dirs = [id] + [id + x for x in 'bcdefgh' if x < suffix]
        try:
            notes = []
            for d in prev_dirs:
                f = [x for x in open(f'/verif/seeded/{d}/patch.diff') if x.startswith('+++ ')][0].split('b/', 1)[1].strip()
                hunk = ''
                for line in open(f'/verif/seeded/{d}/patch.diff'):
                    if line.startswith('@@') and '@@' in line[2:]:
                        hunk = line.split('@@')[-1].strip()
                        break
                notes.append(f"`{f}` near `{hunk}`")
            if len(notes) > 1:
                avoid = "\nEarlier seeded changes for this property already exist in: " + "; ".join(notes) + ". Choose a DIFFERENT mechanism, a different function and ideally a different clause of the property statement than any of them.\n"
                raise StopIteration
        except StopIteration:
            pass
        except Exception:
            pass
        try:
            if avoid:
                raise StopIteration
            for line in open(f'/verif/seeded/{id}/patch.diff'):
                if line.startswith('@@') and '@@' in line[2:]:
                    site = line.split('@@')[-1].strip()
                    break
            f = [x for x in open(f'/verif/seeded/{id}/patch.diff') if x.startswith('+++ ')][0].split('b/', 1)[1].strip()
            avoid = f"\nAn earlier seeded change for this property already exists in `{f}` near `{site}`; choose a DIFFERENT mechanism and a different function, ideally a different clause of the property statement.\n"
        except (Exception, StopIteration):
            pass
    s = T.format(wt=f'/tmp/seed_{id}{suffix}', out=f'/tmp/seed_{id}{suffix}_out', id=id, title=p['title'], statement=p['statement'], quant=p['quantifier']['text'], files=', '.join(p['anchors']['files']), avoid=avoid)
    open(f'/tmp/seedprompts/{id}{suffix}.txt', 'w').write(s)
    print(f'/tmp/seedprompts/{id}{suffix}.txt')
