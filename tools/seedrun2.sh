#!/bin/bash
# seedrun2.sh <seed dir name> <Cxx> [more Cxx...]: applies /verif/seeded/<dir>/patch.diff to /repo, runs
# the given checks (quick, 15 min limit each), restores /repo. Prints one block per check.
set -u
D=/verif/seeded/$1; shift
git -C /repo diff --quiet || { echo "/repo has uncommitted changes; abort"; exit 2; }
git -C /repo apply "$D/patch.diff" || { echo "patch does not apply"; exit 3; }
for P in "$@"; do
  timeout 900 /verif/check "$P" > /tmp/seedrun_$P.log 2>&1; RC=$?
  echo "== $(basename $D) vs $P: exit=$RC; $(grep -c '^VIOLATION' /tmp/seedrun_$P.log) VIOLATION lines"
  grep -A1 '^VIOLATION' /tmp/seedrun_$P.log | grep what | head -2 | cut -c1-300
  grep '^MACHINERY' /tmp/seedrun_$P.log | head -3 | cut -c1-300
done
git -C /repo checkout -- .
