#!/bin/bash
# runs the thorough tier of the given checks (default: all) one after the other; one summary line each
cd /verif
PROPS="$@"
[ -n "$PROPS" ] || PROPS=$(python3 -c "import json;print(' '.join(c['property_id'] for c in json.load(open('MANIFEST.json'))['checks']))")
for P in $PROPS; do
  S=$(date +%s)
  ./check $P --tier thorough > /tmp/thorough_$P.log 2>&1; RC=$?
  echo "$P thorough exit=$RC wall=$(( $(date +%s) - S ))s $(tail -1 /tmp/thorough_$P.log | cut -c1-220)"
  grep -E "^(VIOLATION|MACHINERY)" /tmp/thorough_$P.log | head -3
done
