#!/bin/bash
# runs every claimed check (quick) and prints one summary line each
cd /verif
for P in $(python3 -c "import json;print(' '.join(c['property_id'] for c in json.load(open('MANIFEST.json'))['checks']))") "$@"; do
  ./check $P > /tmp/runall_$P.log 2>&1; RC=$?
  echo "$P exit=$RC $(tail -1 /tmp/runall_$P.log | cut -c1-200)"
  grep -E "^(VIOLATION|MACHINERY)" /tmp/runall_$P.log | head -3
done
