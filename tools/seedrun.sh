#!/bin/bash
# seedrun.sh <seed dir name> <Cxx> [more Cxx...]: apply /verif/seeded/<dir>/patch.diff to /repo, run the
# given checks (quick), then restore /repo. Prints the verdict lines.
set -u
D=/verif/seeded/$1; shift
git -C /repo diff --quiet || { echo "/repo has uncommitted changes; abort"; exit 2; }
git -C /repo apply "$D/patch.diff" || { echo "patch does not apply"; exit 3; }
for P in "$@"; do
  /verif/check "$P" > /tmp/seedrun_$P.log 2>&1; RC=$?
  echo "== $(basename $D) vs $P: exit=$RC; $(grep -c '^VIOLATION' /tmp/seedrun_$P.log) VIOLATION lines"
  grep -A1 '^VIOLATION' /tmp/seedrun_$P.log | head -6 | cut -c1-220
  grep '^MACHINERY' /tmp/seedrun_$P.log | head -3
done
git -C /repo checkout -- .
# rebuild against the restored tree so evidence is regenerated from the unchanged tree later
