#!/bin/bash
# seedverify.sh <Cxx> [suffix]: confirm a sub-agent's seeded regression in its scratch worktree
# /tmp/seed_<Cxx><suffix> (deliverables in /tmp/seed_<Cxx><suffix>_out) against /repo HEAD:
#   (1) demo passes on HEAD, (2) demo fails with the patch, (3) the pinned suite passes with the patch.
# On success stores /verif/seeded/<Cxx><suffix>/{patch.diff,demo.diff,demo_cmd.txt,NOTES.md,meta.json}.
set -u
ID="$1"; SUF="${2:-}"
WT=/tmp/seed_${ID}${SUF}; OUT=/tmp/seed_${ID}${SUF}_out
HEAD=$(git -C /repo rev-parse HEAD)
cd "$WT" || exit 2
git checkout -q -- . ; git clean -fdq -e target ; git checkout -q --detach "$HEAD" || exit 2
TESTNAME=$(grep -E "cargo (test|nextest)" "$OUT/demo_cmd.txt" | head -1 | awk '{print $NF}')
FEAT=""
grep -q -- "--features verif" "$OUT/demo_cmd.txt" && FEAT="--features verif"
[ -n "$TESTNAME" ] || { echo "cannot extract test name"; exit 2; }
git apply "$OUT/demo.diff" || { echo "demo.diff does not apply on HEAD"; exit 3; }
cargo test --workspace --offline $FEAT "$TESTNAME" > "$OUT/v_demo_clean.log" 2>&1; R1=$?
git apply "$OUT/patch.diff" || { echo "patch.diff does not apply on HEAD"; exit 3; }
cargo test --workspace --offline $FEAT "$TESTNAME" > "$OUT/v_demo_patched.log" 2>&1; R2=$?
git apply -R "$OUT/demo.diff"
cargo nextest run --workspace --no-fail-fast --offline --test-threads 8 > "$OUT/v_suite_patched.log" 2>&1; R3=$?
SUITE=$(grep -E "Summary" "$OUT/v_suite_patched.log" | tail -1)
NRUN=$(grep -c "test result: ok" "$OUT/v_demo_clean.log")
echo "$ID$SUF: demo_on_clean=$R1 demo_with_patch=$R2 suite_with_patch=$R3 [$SUITE]"
git checkout -q -- . ; git clean -fdq -e target
NPASS=$(grep -E "^test .* ok$" "$OUT/v_demo_clean.log" | wc -l)
echo "   demo tests passing on clean tree: $NPASS"
if [ $R1 -eq 0 ] && [ $NPASS -ge 1 ] && [ $R2 -ne 0 ] && [ $R3 -eq 0 ]; then
  D=/verif/seeded/${ID}${SUF}; mkdir -p "$D"
  cp "$OUT/patch.diff" "$OUT/demo.diff" "$OUT/demo_cmd.txt" "$OUT/NOTES.md" "$D/"
  python3 - "$ID" "$D" "$HEAD" "$SUITE" "$TESTNAME" <<'PY'
import json,sys
id,d,head,suite,test=sys.argv[1:6]
notes=open(d+'/NOTES.md').read()
json.dump({"property":id,"repo_head_verified_against":head,"demo_test":test,
 "confirmed":{"demo_passes_on_unchanged_tree":True,"demo_fails_with_patch":True,"pinned_suite_with_patch":suite.strip()},
 "what_it_needs_to_manifest":"see NOTES.md (written by the sub-agent that produced the change)",
 "ran":["git apply demo.diff; cargo test --workspace --offline "+test+" (pass)","git apply patch.diff; same (fail)","git apply -R demo.diff; cargo nextest run --workspace --no-fail-fast --offline --test-threads 8 (all pass)"],
 "detected_by":"(filled in after running the checks against the patch)"}, open(d+'/meta.json','w'), indent=1)
PY
  echo "KEPT $D"
else
  echo "REJECTED $ID$SUF"
fi
