#!/usr/bin/env python3
"""Regenerates MANIFEST.json from the table below (keeps it valid at all times)."""
import json, subprocess
CHECKS = {
 # id: (level, technique, level text, level note, design_ref)
 "C02": ("model_checking", "bounded-exhaustive explicit-state exploration of the real code: every history of <= D steps over an unconstrained event alphabet on every config of an enumerated context-placement universe; crash oracle; crash isolation in worker processes",
         "No execution among all (config, history) pairs of the stated finite space panics, aborts or stalls; each is a fresh real Kanata instance driven through handle_input_event/tick_ms. Right level: the property is a safety property over configs x histories and per-execution cost is ~0.1 ms.",
         "dev-profile arithmetic; configs outside the enumerated universe and histories deeper than the completed bound are not covered; known findings listed in known_findings.json", "DESIGN.md §4 C02"),
}
CHECKS["C01"] = ("model_checking", "bounded-exhaustive explicit-state exploration of the real code: all physically consistent histories of D steps x {ascending, descending} completion on every config of the enumerated universes + the complete capacity family; liveness-to-idle oracle through the real can_block_update_idle_waiting/tick_ms loop",
  "Every explored execution ends, after all keys are released, with the real idle loop reporting idle within the horizon, an empty OS-down set, and no later output. Exhaustive within the stated config universes and depth.",
  "settle horizon 400 ticks (all time constants <= 8); latching actions and live reload excluded as the property allows; known findings (queue-overflow class, two chords-v2 interactions) in known_findings.json", "DESIGN.md §4 C01")
CHECKS["C03"] = ("exploration", "bounded-exhaustive enumeration: all single structure-aware mutations of every seed config in the tree, all token strings up to length 5 over a 24-token alphabet, complete self-reference families; crash/diagnostic oracle with per-input crash attribution in worker processes",
  "Every text of three complete finite spaces is parsed by the real parser; each yields Ok or a diagnostic whose spans are readable from the named source and whose rendering returns; no panic, no abort. Exhaustive over the stated spaces (exhaustive=true in the evidence when no cap was hit).",
  "texts more than one mutation away from every seed / longer than 5 tokens are not covered; termination approximated by the deadline", "DESIGN.md §4 C03")
CHECKS["C10"] = ("translation_validation", "exhaustive enumeration of boolean expression programs up to a size bound (all shapes, all truth assignments), all short case lists, complete leaf-semantics tables and threshold boundary scans; each program compiled by the real parser and executed by the real layout, compared with the recursive reading of the source s-expression",
  "For every enumerated program text the compiled switch/fork behaves as the written expression under every truth assignment; decision boundaries of key-timing lie within the documented resolution. Exhaustive over the stated program space.",
  "truth assignments realised through held keys; expression shapes beyond the node bound (except single-path chains to the maximum depth) not enumerated", "DESIGN.md §4 C10")
CHECKS["C04"] = ("model_checking", "bounded-exhaustive explicit-state exploration of the real code in lock-step with a reference model (LayeredKeymap): all 10^4 configs of a fragment menu over 2 layers x 2 keys + curated multi-layer configs, all physically consistent histories of D steps with gaps {0,1,2}; event-by-event trace equality with tick stamps",
  "Every explored execution of the real pipeline produces exactly the output trace of the reference layered-keymap model. Exhaustive over the stated config universe and depth.",
  "fragment only; < 32 pending events; intra-tick order of the model follows the documented press/release diffing", "DESIGN.md §4 C04")
CHECKS["C05"] = ("model_checking", "bounded-exhaustive exploration of the real code: every physically consistent schedule of N events with inter-event gaps from {0,1,H-1,H,H+1} on every tap-hold variant x timeout x tap-repress window x concurrent-tap-hold config (plus a two-tap-hold family), each execution checked against the TapHoldSpec reference (decision kind + tick), exactly-one-decision and order-preservation invariants",
  "No explored schedule produces zero or two decisions for a press, loses or reorders a buffered key, or decides a kind/tick different from the documented triggers. Exhaustive over the stated schedule space.",
  "timing convention pinned in the rule text; same-millisecond trigger/own-release coincidences and +-1 tick around the tap-repress window are don't-cares", "DESIGN.md §4 C05")
CHECKS["C17"] = ("model_checking", "bounded-exhaustive exploration of the real code: every physically consistent schedule of N events over the dance key and one other key with gaps from {0,1,T-1,T,T+1}, for lists of length 1-4, lazy and eager, two timeouts, two rapid-event-delay values; checked against the TapDanceSpec reference (set of acceptable press-output sequences) and a tap-accounting invariant",
  "No explored schedule swallows or doubles a tap, performs an action other than the N-th, lets an interrupting key overtake the chosen action, or releases the chosen action before the final release of the dance key. Exhaustive over the stated schedule space.",
  "count boundaries within the processing skew (queue delay + rapid-event-delay + 2 ticks) of the timeout are don't-cares; key actions only", "DESIGN.md §4 C17")
CHECKS["C06"] = ("model_checking", "bounded-exhaustive exploration of the real code: every physically consistent schedule of N events over two one-shot keys and two plain keys with gaps from {0,1,T-1,T,T+1} for all four end-variants x timeouts x rapid-event-delay x body kinds, plus the complete stacking family n=1..20; checked against the OneShotSpec reference (set of acceptable modifier masks per plain key press)",
  "No explored schedule applies a one-shot to a key after its end point, fails to apply it to the first following key within the timeout, loses or reorders plain keys, or leaves anything held after settling. Exhaustive over the stated schedule space.",
  "timer boundaries within the processing skew branch into both readings", "DESIGN.md §4 C06")
CHECKS["C13"] = ("model_checking", "exhaustive enumeration of override tables (all singles, all ordered pairs over a small key universe) x all active-key lists up to length 4 in every order through the real Overrides::override_keys against a reference substitution; plus bounded-exhaustive lock-step exploration of the full pipeline (all histories of D steps) against a pipeline model",
  "The pure key-list transformation equals the reference on every (table, list) of the stated finite space; every explored pipeline execution equals the pipeline model event for event (per-tick), and nothing stays pressed after release.",
  "4 of the 8 modifiers in the exhaustive part (all 8 in a thorough-tier mask sweep); intra-tick order not compared in the pipeline part", "DESIGN.md §4 C13")
CHECKS["C11"] = ("exploration", "exhaustive enumeration of complete finite spaces: all 65536 code values, the two enum discriminant sets read from source, every scraped key name and every code 0..767 through the real pipeline in three configs, and all mapped-key configurations of a small pool",
  "Round trip is the identity on every u16; OsCode and KeyCode coincide value for value; every name and every code comes out as the code that went in; no-op codes are never sent; the intercepted set equals the specified union on every enumerated configuration (exhaustive=true).",
  "Linux code space; the evdev pass-through branch is not executed, the set it consults is checked", "DESIGN.md §4 C11")
CHECKS["C14"] = ("model_checking", "bounded-exhaustive exploration of the real code: all histories of D steps including OS repeat events at every point, over a generated universe of key-producing action forms nested up to depth 2 on 1-3 layers with/without overrides; per-step safety oracle and a completeness probe at every leaf",
  "No explored repeat event produces more than one output, a non-repeat output, or a repeat for a key that is up at the OS; wherever a single held physical key holds output keys down, its repeat is forwarded to one of them. Exhaustive over the stated space.",
  "completeness probed only where the attribution of the down-set to the held key is certain (single non-layer key, no layer released since its press)", "DESIGN.md §4 C14")
CHECKS["C07"] = ("model_checking", "bounded-exhaustive exploration of a loop twin of start_processing_loop over the real code (can_block_update_idle_waiting / handle_input_event / tick_ms), every history of D steps executed in two modes (block-when-allowed vs always-tick) and compared on ms-stamped outputs; stutter-invariance of the full state digest at every tick taken in a blockable state; the twin is bound to the code by a conformance family that replays 25 scripted traces against the REAL threaded Kanata::start_processing_loop (real channel and clock, wall-clock margins >= 10x) and compares outputs and executed ticks with the twin's prediction",
  "For every explored history the blocking loop and the always-ticking loop emit identical ms-stamped outputs, and every tick taken where blocking is allowed is a no-op on the complete state digest (which, by determinism, extends the equality to all gap lengths and continuations from that state).",
  "thread interleavings of the real threaded loop and scheduler jitter are not explored exhaustively (the conformance family runs the real threads but is wall-clock, not exhaustive); live reload is C15", "DESIGN.md §4 C07")
CHECKS["C08"] = ("model_checking", "bounded-exhaustive exploration of the real code: all macro bodies up to L items over an 8-item grammar x 8 macro variants, each with release / other-key events at every tick offset of the expansion, plus the 1..6 concurrent-macros family; checked against an independent expansion of the body (prefix-closed for cancel variants) with timing obligations",
  "For every enumerated (body, variant, history) the projection of the real output onto the macro's keys is the body's expansion (or a legal cancelled prefix), steps are on distinct ticks, stated delays are respected, repeating stops with the key, and nothing the macro pressed stays pressed.",
  "2 ticks of processing slack at cancel/release instants; cancel-on-press of repeat forms only required during the first round (documentation ambiguity); custom-item lag is a known finding", "DESIGN.md §4 C08")
CHECKS["C09"] = ("model_checking", "bounded-exhaustive exploration of the real code: all chord tables of 1-3 chords over 3 participants (v2 with both release rules and per-chord disabled layers; v1 groups), for every pressed subset every press permutation x gap vector from {0,1,T-1,T,T+1} x release permutation (with a non-chord key at every position), plus all generic histories of D steps; ChordSpec reference for the determinate cases and an accounting invariant for all",
  "No explored execution swallows or doubles a key, fires a chord that was not pressed or is disabled on the active layer, misses a chord whose keys were all pressed within the timeout, delivers non-chord keys out of order, breaks the release rule, or leaves the chord output pressed.",
  "release latency slack T+8+2*events ticks; v1 release timing beyond the upper bound not checked (documented as inconsistent); undefined-superset cases only via accounting", "DESIGN.md §4 C09")
CHECKS["C18"] = ("model_checking", "bounded-exhaustive exploration of the real code: all sequences of N operations over a 12-operation alphabet (physical on-press/on-release keys, macro item, TCP path, two hold-for-duration lengths) with inter-operation gaps around the durations, a 0/1-tick TCP race family, an on-idle family through the idle-loop twin with activity at every offset, and sequence-completion taps; checked against the VkeySpec boolean model with exact timed-release obligations",
  "For every explored operation sequence the number of press pulses and the final state of the virtual key equal the model's (same effect from every source), hold-for-duration releases exactly D ticks after the most recent activation and never earlier, on-idle fires exactly once and not before the idle time.",
  "operations >= 3 ticks apart in the main family; operations landing within 2 ticks of a pending timed release are don't-cares", "DESIGN.md §4 C18")
CHECKS["C19"] = ("model_checking", "bounded-exhaustive exploration of the real code with a relational oracle: every typing schedule of N events (gaps {0,1,3,12}) recorded between start and every kind of stop, replayed once / twice / re-triggered, on time-insensitive and time-sensitive configs in both replay-delay behaviours and two size limits; the replay-phase output of the real instance is compared with a fresh real instance fed the recorded events; plus self-play, nested play, re-record and size-limit scenarios",
  "For every explored recording the replay produces the same key presses in the same order (and the same multiset of events) as typing the recorded events again, nothing is left pressed, self-play terminates, and the size limit ends the recording.",
  "typing gaps kept away from the tap-hold boundary; when a key is still down at stop on a time-sensitive config only 'nothing left down' is checked; stepper mode (C07 covers blocking)", "DESIGN.md §4 C19")
CHECKS["C20"] = ("model_checking", "bounded-exhaustive exploration of the real code: all dictionaries of 1-2 (thorough 1-3) entries over 4 key sets x a 6-string output pool x 3 smart-space modes; for every entry every press permutation x gap vector x shift held or not x release order x continuation, two-round scenarios for every ordered entry pair with three interruption kinds, follow-up chords, and all generic histories of D steps; the OS output is replayed into a text-buffer model",
  "For every explored execution the text left on screen is exactly the expansion (plus smart space) followed by what was typed afterwards, non-chord typing passes through unchanged, the OS shift state equals the physical one, and nothing stays pressed.",
  "US-layout text model; chords whose presses span the deadline boundary (processing latency included) are don't-cares; capitalised-first-letter form accepted when the user holds shift", "DESIGN.md §4 C20")
CHECKS["C15"] = ("fault_enumeration", "exhaustive enumeration of (old config x new file content incl. every failure kind x request kind x history before x idle gap x continuation) on real files through the real Kanata::new / handle_time_ticks (virtual clock hook) / do_live_reload, driven by a transcription of the processing loop; differential oracles: failed reload vs a twin without reload keys, successful reload vs a fresh Kanata::new of the new file; message-channel and timing obligations",
  "For every enumerated case a reload that cannot load the file leaves behaviour identical to never having asked; a reload that can is applied exactly when allowed, announces itself once with the active layer, leaves nothing pressed, and afterwards the instance is indistinguishable (on the continuations) from a fresh start of the new file.",
  "continuations are bounded (<= 2 steps of 4 kinds); permission errors not producible; H3 clock injection checked per call", "DESIGN.md §4 C15")
CHECKS["C12"] = ("model_checking", "exhaustive enumeration of (a) ordered pairs/triples of defseq sequences from an item grammar with shift chords and O- groups, parsed by the real parser and compared with prefix-freeness over the documented permutation expansion and with the stored trie (hook H4); (b) all unit histories (leader/key taps x gaps around the timeout) of bounded length on the real Kanata for 6 sequence sets x 3 input modes x 2 leader forms against a reference model of sequence mode predicting the exact order of OS presses; (c) all physically consistent press/release histories over {a,b,c,lsft} for chorded and overlapping sequences (strict token model / safety + canonical typings)",
  "For every explored table the parser accepts exactly the prefix-free sets and stores exactly the documented expansion; for every explored typing history a defined sequence taps its virtual key exactly once and leaves sequence mode, failing keys and timeouts end it without activation, hidden modes press none of the typed keys (delay-type types them only on failure), visible-backspaced sends one backspace per typed character, and nothing stays pressed.",
  "histories bounded (5-6 units / 6-7 events); timeout deadline band not exercised; where only a proper suffix of the typed keys still matches, both strict cancel and the implementation's backtracking are accepted", "DESIGN.md §4 C12")
CHECKS["C16"] = ("translation_validation", "exhaustive enumeration of meaning-preserving rewrites (alias, var, zero-arg and identity templates, if-equal template, include, platform, deflayermap) at every applicable site of every program of the universe (bound 1) and every pair of sites (bound 2), each rewritten program parsed by the real parser and compared field by field with the original's parsed tables, plus lock-step execution of both on all physically consistent histories of depth 3 (thorough 4)",
  "For every rewritten program explored: accepted iff the original is, identical parsed tables (layer cells, key outputs, mapped keys, overrides, sequences, virtual keys, options), and identical outputs on every explored history.",
  "behavioural comparison bounded to depth 3/4 (tables compared in full); bound-2 compositions only for programs up to 60 (thorough 90) nodes", "DESIGN.md §4 C16")
NOT_YET = {}
props = [json.loads(l) for l in open('/verif/properties.jsonl')]
hooks_commits = subprocess.run(["git","-C","/repo","log","--format=%h %s"],capture_output=True,text=True).stdout.splitlines()
src_commits = [l.split()[0] for l in hooks_commits if l.split(' ',1)[1].startswith('verif hook')]
m = {
 "version": 1,
 "setup_cmd": "cd /verif/kmc && CARGO_NET_OFFLINE=true cargo build --release --offline",
 "hooks": {
   "guard": "cargo feature `verif` (kanata, kanata-parser, kanata-keyberon); off by default",
   "enable": "kmc/Cargo.toml path-depends on /repo with features [\"simulated_output\",\"verif\"]; every ./check run does `cargo build --release` so /repo's working tree is rebuilt",
   "baseline_off_cmd": "cd /repo && cargo nextest run --workspace --no-fail-fast --offline --test-threads 8",
   "source_commits": src_commits,
   "add_only": True,
 },
 "engines": [
   {"name": "kmc", "path": "/verif/kmc", "serves_properties": sorted(CHECKS.keys()),
    "kind_free_text": "Rust; bounded-exhaustive explicit-state explorer over the real kanata state machine (state = event history replayed on a fresh real instance; worker processes; reference models and differential oracles per property)"}
 ],
 "checks": [],
 "not_applicable": [],
 "notes": "Entry point: /verif/check <Cxx> [--tier quick|thorough] [--replay file]. Known findings: /verif/known_findings.json. Seeded regressions used to test detection: /verif/seeded/."
}
for p in props:
    i = p["id"]
    if i in CHECKS:
        lvl, tech, text, note, ref = CHECKS[i]
        m["checks"].append({
          "property_id": i,
          "quick_cmd": f"./check {i} --tier quick",
          "thorough_cmd": f"./check {i} --tier thorough",
          "evidence_file": f"/verif/evidence/{i}.json",
          "replay_cmd_template": "./check "+i+" --replay {path}",
          "engine": "kmc",
          "level_claimed": {"category": lvl, "text": text, "design_ref": ref},
          "level_note": note,
          "technique": tech,
        })
    else:
        m["not_applicable"].append({"property_id": i, "reason": NOT_YET.get(i, "check not built yet in this round (planned, see DESIGN.md §4); not claimed until its check exists and passes on the unchanged tree")})
json.dump(m, open('/verif/MANIFEST.json','w'), indent=1)
print("checks:", [c["property_id"] for c in m["checks"]])
